#!/usr/bin/env python3
"""Generates /verif/MANIFEST.json from the table below (kept in one place so it stays valid)."""
import json, subprocess

def hook_commits():
    out = subprocess.run(["git", "-C", "/repo", "log", "--format=%H %s"], capture_output=True, text=True).stdout
    return [l.split()[0] for l in out.splitlines() if "verif hooks:" in l]

E1 = "regex-syntax 0.8.4 / regex-automata 0.4.7 (the versions locked by the repository) define what a pattern denotes; any counterexample is re-validated with regex::Regex; oracle size limits are inconclusive; inputs and settings are sampled except for the bounded-exhaustive families"

CHECKS = {
    "C01": dict(
        technique="runtime monitor: real build() output compiled and run with regex::Regex on every test case; hook snapshots classify the known finding",
        text="Exploration: every execution of the real build() is observed by an oracle (the regex crate itself) that decides 'compiles and matches every test case in full'. Reach: bounded-exhaustive power sets of small alphabets, all small sets of one-character metacharacter/blank strings, structured random families over 10 adversarial alphabets, a sweep over scalar values, sampled points of the settings lattice. Held = held on the executions observed.",
        note="Trusted: regex 1.10.6 as the definition of 'compiles'/'matches'; inputs are sampled except for the bounded-exhaustive families.",
        ref="DESIGN.md §3 C01"),
    "C02": dict(
        technique="runtime monitor with exact language oracle: DFA equivalence (regex-automata) of the real output and the alternation of the test cases",
        text="Exploration over inputs; per execution the question 'does the pattern accept anything but the test cases' is decided exactly over all Unicode strings by automaton equivalence, not sampled. Full power sets of {a,b}^<=3 and {a,b,c}^<=2 in the thorough tier.",
        note=E1, ref="DESIGN.md §3 C02"),
    "C03": dict(
        technique="runtime monitor: DFA equivalence of the real output with the per-code-point class specification built from the regex crate's own classes",
        text="Exploration: all 63 class-option subsets x class-diverse inputs x modifiers; each execution decided exactly by automaton equivalence against the documented precedence.",
        note=E1, ref="DESIGN.md §3 C03"),
    "C04": dict(
        technique="runtime monitor: AST flag check, DFA equivalence with the (?i) alternation of the original test cases, collapse probes, single-scalar sweep",
        text="Exploration: cased/uncased alphabets, every special-cased letter alone and in pairs, every cased scalar (all scalars in thorough) as a one-character test case; language decided exactly per execution.",
        note=E1 + "; collapse asserted only for std-equal, engine-foldable variants", ref="DESIGN.md §3 C04"),
    "C05": dict(
        technique="runtime monitor: DFA equivalence of build(with repetitions) and build(without); stage attribution through the hook event log",
        text="Exploration over repeat-rich families x thresholds; every difference is attributed to a pipeline stage from recorded snapshots so that only the listed known defect (trie folding) is tolerated.",
        note=E1 + "; the D3 classifier is an executable model of the defective folding rule", ref="DESIGN.md §3 C05"),
    "C06": dict(
        technique="runtime monitor: DFA equivalence of each of the 7 presentation subsets with the base build; regex-syntax AST for flags and group kinds",
        text="Exploration over blank/metacharacter-heavy inputs x base settings; verbose sweep over blank/control scalars (all scalars in thorough).",
        note=E1, ref="DESIGN.md §3 C06"),
    "C07": dict(
        technique="runtime monitor: catch_unwind + subprocess death-by-signal detection + regex crate acceptance over the full 2^15 settings lattice; Miri leg in the thorough tier",
        text="Exploration: full lattice of 32768 boolean settings on rich inputs, thresholds incl. u32::MAX, random inputs x random lattice points, large inputs in child processes (stack overflow / abort observed as signals), documented-panic contract. Built with overflow checks and debug assertions. Thorough adds Miri (UB / leaks in executed paths).",
        note="regex 1.10.6 defines 'accepted' (default parser limits); time/memory exhaustion is inconclusive", ref="DESIGN.md §3 C07"),
    "C08": dict(
        technique="runtime monitor: HIR anchor structure, DFA equivalence of anchored vs anchor-less body, Regex::find span monitor",
        text="Exploration centred on prefix-related test cases: all subsets of {a,b}^<=3 and {a,b,c}^<=2 x 3 anchor modes (size<=4 quick, all thorough), grapheme/class/repetition variants, random families.",
        note=E1 + "; leftmost-first semantics are those of regex 1.10.6", ref="DESIGN.md §3 C08"),
    "C09": dict(
        technique="runtime monitor: exhaustive single-scalar sweep against the regex crate's class tables",
        text="Every one of the 1,112,064 scalar values x the six single options is built in both tiers; all multi-option subsets on every class boundary (quick) or every scalar (thorough, exhaustive).",
        note="class membership oracle: ranges of the regex-syntax HIR of \\d, \\w, \\s in Unicode mode", ref="DESIGN.md §3 C09"),
    "C10": dict(
        technique="runtime monitor: builder histories against a sequential model, in-process rebuilds (fresh hash seeds), cross-process and 16-thread comparisons; ThreadSanitizer and Miri many-seeds legs in the thorough tier",
        text="Exploration over histories and schedules: string equality of results across setter orders, interleaved builds, clones, list permutations/duplicates, processes and racing threads.",
        note="schedules are sampled (OS scheduler; Miri seeds in thorough), not enumerated", ref="DESIGN.md §3 C10"),
    "C11": dict(
        technique="runtime monitor: ASCII check, escape tokenizer (surrogate pairing, quantifier binding), DFA equivalence of the decoded pattern with the unescaped build, exact-text sweep",
        text="Exploration over boundary code points, pairs and repeats x surrogate flag x other settings; sweep of non-ASCII scalars in both modes (every scalar in thorough).",
        note=E1, ref="DESIGN.md §3 C11"),
    "C12": dict(
        technique="runtime monitor on the real grex binary: stdout/stderr/exit status vs the in-process library for every channel variant",
        text="Exploration: discriminating input x single flags, all pairs, thresholds, random subsets; random argument-safe inputs; 13 channel variants per case; error inputs must fail with one error line and no panic.",
        note="the binary is built from /repo's working tree by build.sh; short/long option spellings alternate", ref="DESIGN.md §3 C12"),
    "C13": dict(
        technique="runtime monitor: regex-syntax AST walk over every counted repetition of the real output",
        text="Exploration over unary/periodic/nested inputs x thresholds 1..=6 x 1..=6 and random repeat-rich families; monotonicity probe with one threshold raised.",
        note="unit length measured in code points (an upper bound of grex's grapheme count), so the monitor can only under-report", ref="DESIGN.md §3 C13"),
    "C14": dict(
        technique="runtime monitor on the real Python extension module (built from /repo, loaded in CPython): result vs independent re-implementation of the specified rewrite, re.compile, re.fullmatch, ValueError contract",
        text="Exploration over code points of every hex width x escape modes x settings, all setters and pairs, random families; setter order shuffled.",
        note="CPython's re defines 'compiles'/'matches'; Python/Rust case-folding differences are notes, not violations", ref="DESIGN.md §3 C14"),
    "C15": dict(
        technique="runtime monitor: highlighted vs plain output, DP deciding whether deleting SGR sequences yields the plain output",
        text="Exploration: lattice of the 14 other settings on rich inputs, random families with one third over ESC [ m digits ; alphabets.",
        note="SGR grammar: ESC [ digits (; digits)* m", ref="DESIGN.md §3 C15"),
    "C16": dict(
        technique="runtime monitor over the hook event log: stage-by-stage DFA equivalence and structural minimality of the recorded automata",
        text="Exploration: per execution the recorded clusters, trie, minimised automaton and expression are compared as languages stage by stage; with repetition off the minimised automaton is checked for determinism, reachability and pairwise distinct right languages.",
        note=E1 + "; hook records real data structures read-only", ref="DESIGN.md §3 C16"),
}

NOT_APPLICABLE = [
    dict(property_id="C17", reason="WebAssembly binding: runtime monitoring needs the real wasm artifact in a JS host; no wasm32 target/std, wasm-pack, wasm-bindgen CLI or JS runtime glue is installed or fetchable in this sandbox (DESIGN.md §3 C17)"),
]

def main():
    checks = []
    for pid, c in sorted(CHECKS.items()):
        checks.append(dict(
            property_id=pid,
            quick_cmd=f"./check {pid} quick",
            thorough_cmd=f"./check {pid} thorough",
            evidence_file=f"/verif/evidence/{pid}.json",
            replay_cmd_template=f"./check {pid} --replay {{path}}",
            engine="vharness",
            level_claimed=dict(category=c.get("category", "exploration"), text=c["text"], design_ref=c["ref"]),
            level_note=c["note"],
            technique=c["technique"],
        ))
    claimed = set(CHECKS)
    na = [n for n in NOT_APPLICABLE if n["property_id"] not in claimed]
    for i in range(1, 18):
        pid = f"C{i:02d}"
        if pid not in claimed and not any(n["property_id"] == pid for n in na):
            na.append(dict(property_id=pid, reason="check not built yet in this revision of the framework (work in progress; see DESIGN.md)"))
    m = dict(
        version=1,
        setup_cmd="./build.sh all",
        hooks=dict(
            guard="grex_verif",
            enable='RUSTFLAGS="--cfg grex_verif" (set by /verif/build.sh for every build of /repo; with the cfg absent src/verif.rs and all record calls compile to nothing)',
            baseline_off_cmd="cd /repo && cargo test --workspace --no-fail-fast --offline",
            source_commits=hook_commits(),
            add_only=True,
        ),
        engines=[dict(name="vharness", path="/verif/harness", serves_properties=sorted(claimed),
                      kind_free_text="Rust runtime-monitoring harness: drives the real grex library/CLI/Python module from /repo's working tree (hooks on) under generated workloads; oracles: regex crate, regex-automata DFA equivalence, regex-syntax AST, hook event log; sanitizer legs: Miri, ThreadSanitizer")],
        checks=checks,
        notes="All checks are runtime monitors over real executions (see DESIGN.md). ./check <ID> <tier> rebuilds the harness and grex from /repo's working tree on every invocation. Known findings: KNOWN_FINDINGS.txt.",
        not_applicable=sorted(na, key=lambda n: n["property_id"]),
    )
    json.dump(m, open("/verif/MANIFEST.json", "w"), indent=1)
    print("MANIFEST.json written:", len(checks), "checks,", len(na), "not applicable")

if __name__ == "__main__":
    main()
