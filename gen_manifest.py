#!/usr/bin/env python3
"""Generates /verif/MANIFEST.json from the table below (kept in one place so it stays valid)."""
import json, subprocess

def hook_commits():
    out = subprocess.run(["git", "-C", "/repo", "log", "--format=%H %s"], capture_output=True, text=True).stdout
    return [l.split()[0] for l in out.splitlines() if "verif hooks:" in l]

CHECKS = {
    "C01": dict(
        technique="runtime monitor at the API boundary: real build() output compiled and run with regex::Regex on every test case; hook snapshots classify the known finding",
        text="Exploration: every execution of the real build() is observed by an oracle (the regex crate itself) that decides 'compiles and matches every test case in full'. Reach comes from bounded-exhaustive power sets of small alphabets, structured random families over adversarial alphabets, a sweep over scalar values and sampled/pairwise points of the settings lattice. Held means: held on the K executions observed.",
        note="Trusted: regex 1.10.6 (the version locked by the repository) as the definition of 'compiles'/'matches'; inputs are sampled except for the bounded-exhaustive families.",
        ref="DESIGN.md §3 C01"),
}

NOT_APPLICABLE = [
    dict(property_id="C17", reason="WebAssembly binding: runtime monitoring needs the real wasm artifact in a JS host; no wasm32 target/std, wasm-pack, wasm-bindgen CLI or JS runtime glue is installed or fetchable in this sandbox (DESIGN.md §3 C17)"),
]

def main():
    checks = []
    for pid, c in sorted(CHECKS.items()):
        checks.append(dict(
            property_id=pid,
            quick_cmd=f"./check {pid} quick",
            thorough_cmd=f"./check {pid} thorough",
            evidence_file=f"/verif/evidence/{pid}.json",
            replay_cmd_template=f"./check {pid} --replay {{path}}",
            engine="vharness",
            level_claimed=dict(category=c.get("category", "exploration"), text=c["text"], design_ref=c["ref"]),
            level_note=c["note"],
            technique=c["technique"],
        ))
    claimed = set(CHECKS)
    na = [n for n in NOT_APPLICABLE if n["property_id"] not in claimed]
    for i in range(1, 18):
        pid = f"C{i:02d}"
        if pid not in claimed and not any(n["property_id"] == pid for n in na):
            na.append(dict(property_id=pid, reason="check not built yet in this revision of the framework (work in progress; see DESIGN.md)"))
    m = dict(
        version=1,
        setup_cmd="./build.sh all",
        hooks=dict(
            guard="grex_verif",
            enable='RUSTFLAGS="--cfg grex_verif" (set by /verif/build.sh for every build of /repo; with the cfg absent src/verif.rs and all record calls compile to nothing)',
            baseline_off_cmd="cd /repo && cargo test --workspace --no-fail-fast --offline",
            source_commits=hook_commits(),
            add_only=True,
        ),
        engines=[dict(name="vharness", path="/verif/harness", serves_properties=sorted(claimed),
                      kind_free_text="Rust runtime-monitoring harness: drives the real grex library/CLI/Python module from /repo's working tree (hooks on) under generated workloads; oracles: regex crate, regex-automata DFA equivalence, regex-syntax AST, hook event log; sanitizer legs: Miri, ThreadSanitizer")],
        checks=checks,
        notes="All checks are runtime monitors over real executions (see DESIGN.md). ./check <ID> <tier> rebuilds the harness and grex from /repo's working tree on every invocation. Known findings: KNOWN_FINDINGS.txt.",
        not_applicable=sorted(na, key=lambda n: n["property_id"]),
    )
    json.dump(m, open("/verif/MANIFEST.json", "w"), indent=1)
    print("MANIFEST.json written:", len(checks), "checks,", len(na), "not applicable")

if __name__ == "__main__":
    main()
