#!/bin/bash
# Builds the verification machinery offline from files on disk, and grex itself from /repo's
# current working tree with the hooks enabled.   ./build.sh [harness|cli|python|all]
set -eu
cd "$(dirname "$0")"
export CARGO_NET_OFFLINE=true
mkdir -p /verif/.build
what="${1:-all}"
export RUSTFLAGS="--cfg grex_verif"
if [ "$what" = harness ] || [ "$what" = all ]; then
  (
    flock 9
    cd /verif/harness
    CARGO_TARGET_DIR=/verif/.build/harness cargo build --release --offline --bin vharness
  ) 9>/verif/.build/harness.lock
fi
if [ "$what" = cli ] || [ "$what" = all ]; then
  (
    flock 9
    cd /repo
    cargo build --release --offline --bin grex --target-dir /verif/.build/cli
  ) 9>/verif/.build/cli.lock
fi
if [ "$what" = python ] || [ "$what" = all ]; then
  ./build_python.sh
fi
