#!/bin/bash
# Builds the verification machinery offline from files on disk. ./build.sh [harness|all]
set -eu
cd "$(dirname "$0")"
export CARGO_NET_OFFLINE=true
mkdir -p /verif/.build
what="${1:-all}"
(
  flock 9
  cd /verif/harness
  RUSTFLAGS="--cfg grex_verif" CARGO_TARGET_DIR=/verif/.build/harness cargo build --release --offline --bin vharness
) 9>/verif/.build/harness.lock
