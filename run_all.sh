#!/bin/bash
# Runs every registered check once (tier from $1, default quick) and validates the evidence files.
cd "$(dirname "$0")"
tier="${1:-quick}"
fail=0
for id in $(python3 -c "import json;print(' '.join(c['property_id'] for c in json.load(open('MANIFEST.json'))['checks']))"); do
  start=$(date +%s)
  out=$(./check "$id" "$tier" 2>&1); code=$?
  end=$(date +%s)
  echo "$out" | grep -E "^VIOLATION|^KNOWN-FINDING|^\[$id\]|BUILD-FAILED|ERROR" | cut -c1-260
  echo "  -> $id exit=$code wall=$((end-start))s"
  [ $code -ne 0 ] && fail=1
done
python3-vt - <<'PY'
import json, jsonschema, glob
schema = json.load(open('/root/.vp/EVIDENCE.schema.json'))
for c in json.load(open('/verif/MANIFEST.json'))['checks']:
    try:
        jsonschema.validate(json.load(open(c['evidence_file'])), schema)
    except Exception as e:
        print("EVIDENCE INVALID", c['property_id'], str(e)[:200])
print("evidence validated")
PY
exit $fail
