#!/bin/bash
# Builds the real Python extension module of /repo (features pyo3/extension-module + python, as
# maturin would) and installs it as /verif/.build/pymod/grex.so for the C14 monitor.
set -eu
export CARGO_NET_OFFLINE=true
export RUSTFLAGS="--cfg grex_verif"
PY="${VERIF_PYTHON:-/root/.pyenv/versions/3.11.7/bin/python3.11}"
[ -x "$PY" ] || PY="$(command -v python3.11 || command -v python3)"
export PYO3_PYTHON="$PY"
mkdir -p /verif/.build/pymod
(
  flock 9
  cd /repo
  cargo build --release --offline --lib --no-default-features --features "pyo3/extension-module python" --target-dir /verif/.build/py
  cp /verif/.build/py/release/libgrex.so /verif/.build/pymod/grex.so
  echo "$PY" > /verif/.build/pymod/python-path
) 9>/verif/.build/py.lock
