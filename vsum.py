#!/usr/bin/env python3
"""Summarise replay files of a property: python3 vsum.py C01"""
import json,glob,sys,collections
prop=sys.argv[1]
c=collections.Counter()
for f in sorted(glob.glob(f'/verif/replays/{prop}-*.json')):
    v=json.load(open(f)); c[v['kind']]+=1
    print(f, v['kind'], v['detail'][:300]); print('   ', json.dumps(v['case'],ensure_ascii=False)[:600])
print(c)
