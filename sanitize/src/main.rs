//! sdriver — minimal driver for the sanitizer legs (Miri, ThreadSanitizer).
//! It depends on grex only, so that the interpreter / instrumented build stays small.
//!
//!   sdriver seq <cases-file>              build every case, print `idx<TAB>hex(result)`
//!   sdriver threads <cases-file> <n>      n threads released by a barrier build all cases
//!                                         concurrently (first use of the lazily initialised
//!                                         tables is raced); results of all threads must agree
//! cases file: one case per line: flags<TAB>min_rep<TAB>min_len<TAB>hex(tc1),hex(tc2),...
use grex::RegExpBuilder;
use std::sync::{Arc, Barrier};

struct Case {
    flags: u32,
    min_rep: u32,
    min_len: u32,
    tcs: Vec<String>,
}

fn unhex(s: &str) -> String {
    let b: Vec<u8> = (0..s.len() / 2).map(|i| u8::from_str_radix(&s[2 * i..2 * i + 2], 16).unwrap()).collect();
    String::from_utf8(b).unwrap()
}

fn hex(s: &str) -> String {
    s.bytes().map(|b| format!("{b:02x}")).collect()
}

fn parse(path: &str) -> Vec<Case> {
    std::fs::read_to_string(path)
        .unwrap()
        .lines()
        .filter(|l| !l.is_empty())
        .map(|l| {
            let f: Vec<&str> = l.split('\t').collect();
            Case {
                flags: f[0].parse().unwrap(),
                min_rep: f[1].parse().unwrap(),
                min_len: f[2].parse().unwrap(),
                tcs: f.get(3).map(|x| x.split(',').map(unhex).collect()).unwrap_or_default(),
            }
        })
        .collect()
}

fn build(c: &Case) -> String {
    let f = c.flags;
    let mut b = RegExpBuilder::from(&c.tcs);
    if f & 1 != 0 {
        b.with_conversion_of_digits();
    }
    if f & 2 != 0 {
        b.with_conversion_of_non_digits();
    }
    if f & 4 != 0 {
        b.with_conversion_of_whitespace();
    }
    if f & 8 != 0 {
        b.with_conversion_of_non_whitespace();
    }
    if f & 16 != 0 {
        b.with_conversion_of_words();
    }
    if f & 32 != 0 {
        b.with_conversion_of_non_words();
    }
    if f & 64 != 0 {
        b.with_conversion_of_repetitions();
    }
    if f & 128 != 0 {
        b.with_case_insensitive_matching();
    }
    if f & 256 != 0 {
        b.with_capturing_groups();
    }
    if f & 512 != 0 {
        b.with_escaping_of_non_ascii_chars(f & 1024 != 0);
    }
    if f & 2048 != 0 {
        b.with_verbose_mode();
    }
    if f & 4096 != 0 {
        b.without_start_anchor();
    }
    if f & 8192 != 0 {
        b.without_end_anchor();
    }
    if f & 16384 != 0 {
        b.with_syntax_highlighting();
    }
    b.with_minimum_repetitions(c.min_rep).with_minimum_substring_length(c.min_len);
    let out = b.build();
    #[cfg(grex_verif)]
    let _ = grex::verif::take();
    out
}

fn main() {
    let a: Vec<String> = std::env::args().collect();
    let cases = Arc::new(parse(&a[2]));
    match a[1].as_str() {
        "seq" => {
            for (i, c) in cases.iter().enumerate() {
                println!("{i}\t{}", hex(&build(c)));
            }
        }
        "threads" => {
            let n: usize = a[3].parse().unwrap();
            let barrier = Arc::new(Barrier::new(n));
            let handles: Vec<_> = (0..n)
                .map(|t| {
                    let (cases, barrier) = (cases.clone(), barrier.clone());
                    std::thread::spawn(move || {
                        barrier.wait();
                        // every thread starts at a different case so that different code runs concurrently
                        let k = cases.len();
                        let mut out = vec![String::new(); k];
                        for j in 0..k {
                            let i = (j + t * 7) % k;
                            out[i] = build(&cases[i]);
                        }
                        out
                    })
                })
                .collect();
            let results: Vec<Vec<String>> = handles.into_iter().map(|h| h.join().unwrap()).collect();
            for (t, r) in results.iter().enumerate() {
                for (i, o) in r.iter().enumerate() {
                    if *o != results[0][i] {
                        println!("MISMATCH case {i} thread {t}: {} vs {}", hex(o), hex(&results[0][i]));
                    }
                }
            }
            for (i, o) in results[0].iter().enumerate() {
                println!("{i}\t{}", hex(o));
            }
        }
        _ => panic!("usage"),
    }
}
