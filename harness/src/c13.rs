//! C13 — repetition thresholds are honoured; braces appear only on request.
use crate::cfg::*;
use crate::e2e::Ctx;
use crate::gen::{self, Rng};
use crate::report::*;
use regex_syntax::ast::{Ast, RepetitionKind, RepetitionRange};
use serde_json::json;

#[derive(Debug, Clone)]
pub struct Counted {
    pub lower: u32,
    pub upper: Option<u32>,
    /// minimal number of code points one iteration of the operand spans
    pub unit_chars: u64,
    pub text: String,
}

/// Minimal number of code points the node spans; collects every counted repetition on the way.
fn span(ast: &Ast, out: &mut Vec<Counted>, src: &str) -> u64 {
    match ast {
        Ast::Empty(_) | Ast::Flags(_) | Ast::Assertion(_) => 0,
        Ast::Literal(_) | Ast::Dot(_) | Ast::ClassUnicode(_) | Ast::ClassPerl(_) | Ast::ClassBracketed(_) => 1,
        Ast::Group(g) => span(&g.ast, out, src),
        Ast::Concat(c) => c.asts.iter().map(|a| span(a, out, src)).sum(),
        Ast::Alternation(a) => a.asts.iter().map(|x| span(x, out, src)).min().unwrap_or(0),
        Ast::Repetition(r) => {
            let inner = span(&r.ast, out, src);
            match &r.op.kind {
                RepetitionKind::ZeroOrOne | RepetitionKind::ZeroOrMore => 0,
                RepetitionKind::OneOrMore => inner,
                RepetitionKind::Range(range) => {
                    let (lower, upper) = match range {
                        RepetitionRange::Exactly(n) => (*n, Some(*n)),
                        RepetitionRange::AtLeast(n) => (*n, None),
                        RepetitionRange::Bounded(m, n) => (*m, Some(*n)),
                    };
                    let sp = r.span;
                    out.push(Counted { lower, upper, unit_chars: inner, text: src.get(sp.start.offset..sp.end.offset).unwrap_or("").chars().take(80).collect() });
                    inner.saturating_mul(lower as u64)
                }
            }
        }
    }
}

pub fn counted_repetitions(out: &str) -> Result<Vec<Counted>, String> {
    let ast = regex_syntax::ast::parse::ParserBuilder::new().nest_limit(5000).build().parse(out).map_err(|e| e.to_string())?;
    let mut v = vec![];
    span(&ast, &mut v, out);
    Ok(v)
}

pub fn check_case(_ctx: &Ctx, st: &mut Stats, tcs: &[String], s: Settings) -> Option<usize> {
    st.evaluations += 1;
    let out = match build(tcs, s) {
        Ok(o) => o,
        Err(p) => {
            st.violation("panic", format!("build() panicked: {p}"), case_json(tcs, s));
            return None;
        }
    };
    let reps = match counted_repetitions(&out) {
        Ok(r) => r,
        Err(e) => {
            let mut case = case_json(tcs, s);
            case["output"] = json!(out);
            st.violation("invalid_pattern", e, case);
            return None;
        }
    };
    st.decided += 1;
    st.add("quantifiers_observed", reps.len() as u64);
    let mut case = case_json(tcs, s);
    case["output"] = json!(out);
    if !s.has(REP) {
        st.count("builds_without_conversion");
        if !reps.is_empty() {
            st.violation("braces_without_request", format!("repetition conversion is off but the pattern contains {:?}", reps.iter().map(|r| r.text.clone()).collect::<Vec<_>>()), case);
        }
        return Some(reps.len());
    }
    if !reps.is_empty() {
        st.distinct.insert(gen::hash_case(tcs, s));
    }
    for r in &reps {
        let upper = r.upper.unwrap_or(u32::MAX);
        if upper <= s.min_rep {
            st.violation(
                "min_repetitions_not_honoured",
                format!("quantifier {:?} has upper count {} which is not greater than minimum repetitions {}", r.text, upper, s.min_rep),
                case.clone(),
            );
        }
        if r.unit_chars < s.min_len as u64 {
            st.violation(
                "min_substring_length_not_honoured",
                format!("quantifier {:?} applies to a unit of {} character(s), minimum substring length is {}", r.text, r.unit_chars, s.min_len),
                case.clone(),
            );
        }
        if r.upper.is_none() || r.lower == 0 || r.upper.map(|u| u < r.lower).unwrap_or(false) {
            st.violation("malformed_quantifier", format!("quantifier {:?} has bounds {}..{:?}", r.text, r.lower, r.upper), case.clone());
        }
    }
    if !reps.is_empty() {
        st.sample(json!({"test_cases": tcs, "settings": s.to_json(), "output": out, "quantifiers": reps.iter().map(|r| json!({"text": r.text, "lower": r.lower, "upper": r.upper, "unit_chars": r.unit_chars})).collect::<Vec<_>>()}));
    }
    Some(reps.len())
}

/// Raising a threshold never introduces quantifiers where there were none.
fn monotone(ctx: &Ctx, st: &mut Stats, tcs: &[String], s: Settings, rng: &mut Rng) {
    let Some(n0) = check_case(ctx, st, tcs, s) else { return };
    let mut s2 = s;
    if rng.chance(1, 2) {
        s2.min_rep = s.min_rep.saturating_add(1 + rng.below(3) as u32);
    } else {
        s2.min_len = s.min_len.saturating_add(1 + rng.below(3) as u32);
    }
    let Some(n1) = check_case(ctx, st, tcs, s2) else { return };
    st.count("monotonicity_pairs");
    if n0 == 0 && n1 > 0 {
        let mut case = case_json(tcs, s);
        case["raised_settings"] = s2.to_json();
        // Known finding KF-D18: the minimum-substring-length filter runs after overlap resolution, so with
        // min_substring_length >= 2 shorter repeated substrings still displace a longer convertible one and are
        // then dropped themselves. With min_substring_length == 1 that filter never drops anything, so the
        // finding cannot explain the observation and it stays a violation.
        let known = if s.min_len >= 2 { Some("KF-D18") } else { None };
        ctx.run.classify(
            st,
            known,
            "raising_threshold_introduces_quantifier",
            format!("no quantifier with thresholds ({},{}) but {} with ({},{})", s.min_rep, s.min_len, n1, s2.min_rep, s2.min_len),
            case,
        );
    }
}

/// Thresholds set while conversion is off, a build, then conversion switched on: the thresholds set
/// earlier still apply.
fn threshold_history(ctx: &Ctx, st: &mut Stats, tcs: &[String], m: u32, l: u32) {
    use grex::RegExpBuilder;
    st.evaluations += 1;
    let got = std::panic::catch_unwind(std::panic::AssertUnwindSafe(|| {
        let mut b = RegExpBuilder::from(tcs);
        b.with_minimum_repetitions(m).with_minimum_substring_length(l);
        let first = b.build();
        b.with_conversion_of_repetitions();
        let second = b.build();
        let third = b.clone().build();
        (first, second, third)
    }));
    let Ok((first, second, third)) = got else {
        st.inconclusive("panic in threshold history (C07's concern)");
        return;
    };
    st.decided += 1;
    st.count("threshold_histories");
    let s = Settings::with(REP, m, l);
    let mut case = case_json(tcs, s);
    case["what"] = json!("threshold_history");
    if let Ok(r) = counted_repetitions(&first) {
        if !r.is_empty() {
            st.violation("braces_without_request", format!("first build (conversion off) contains {:?}", r.iter().map(|x| x.text.clone()).collect::<Vec<_>>()), case.clone());
        }
    }
    for out in [&second, &third] {
        if let Ok(reps) = counted_repetitions(out) {
            for r in reps {
                if r.upper.unwrap_or(u32::MAX) <= m || r.unit_chars < l as u64 {
                    case["output"] = json!(out);
                    st.violation(
                        "thresholds_lost_in_history",
                        format!("thresholds ({m},{l}) were set before conversion was enabled, but the later build contains {:?}", r.text),
                        case.clone(),
                    );
                    return;
                }
            }
        }
    }
    let _ = ctx;
}

pub fn replay(ctx: &Ctx, case: &serde_json::Value) {
    let (tcs, s) = case_from_json(case);
    let mut st = Stats::new();
    check_case(ctx, &mut st, &tcs, s);
    if let Some(r) = case.get("raised_settings") {
        check_case(ctx, &mut st, &tcs, Settings::from_json(r));
    }
    ctx.run.merge(st);
}

pub const OTHER: u32 = CLASS_MASK | CI | ESC | VERB | CAP | NOSTART | NOEND;

pub fn run(ctx: &Ctx) -> i32 {
    let seed = ctx.seed();
    // deterministic unary / periodic / nested inputs x all thresholds 1..=6 x 1..=6
    let mut fixed: Vec<Vec<String>> = vec![];
    for i in 1..=7usize {
        fixed.push(vec!["a".repeat(i)]);
        fixed.push(vec!["ab".repeat(i)]);
        fixed.push(vec![format!("x{}y", "abc".repeat(i))]);
        fixed.push(vec![format!("{}c", "aab".repeat(i)), "a".repeat(i)]);
        fixed.push(vec![format!("{}{}", "a".repeat(i), "b".repeat(8 - i))]);
        fixed.push(vec![format!("{} {}", "ab".repeat(i), "ab".repeat(i)).repeat(2)]);
        fixed.push(vec!["💩".repeat(i), "é".repeat(i + 1)]);
        fixed.push(vec![format!("{}1", "12".repeat(i)), "1".repeat(i)]);
    }
    par_for(&ctx.run, fixed.len() * 36, |i, st| {
        let tcs = &fixed[i % fixed.len()];
        let t = i / fixed.len();
        let s = Settings::with(REP, 1 + (t % 6) as u32, 1 + (t / 6) as u32);
        st.count("fixed_repeat_inputs_x_thresholds");
        check_case(ctx, st, tcs, s);
        if i % 6 == 0 {
            check_case(ctx, st, tcs, Settings::new(0));
            check_case(ctx, st, tcs, Settings::with(REP | ESC | VERB, s.min_rep, s.min_len));
            check_case(ctx, st, tcs, Settings::with(REP | DIGIT | NWORD | CAP, s.min_rep, s.min_len));
        }
    });
    if std::env::var("VERIF_TIMING").is_ok() { eprintln!("[timing] c13.rs block 1: {:.1}s", ctx.run.started.elapsed().as_secs_f64()); }
    // medium-sized inputs: many / long test cases, many distinct symbols, long repeats, deep prefix chains
    {
        let n = if ctx.thorough { 6000 } else { 400 };
        let names = ["ab", "abc", "mixed", "meta", "astral"];
        let als: Vec<Vec<String>> = names.iter().map(|a| gen::alphabet(a)).collect();
        par_for(&ctx.run, n, |i, st| {
            let mut rng = Rng::new(seed, 0x131_0000 + i as u64);
            let tcs = gen::medium_family(&mut rng, &als[i % als.len()]);
            let tcs: Vec<String> = tcs.into_iter().filter(|t| !t.is_empty()).collect();
            if tcs.is_empty() {
                return;
            }
            st.count("medium_sized_inputs");
            let mut s = Settings::new(REP | if i % 4 == 0 { ESC | CAP } else { 0 });
            s.min_rep = 1 + rng.below(8) as u32;
            s.min_len = 1 + rng.below(4) as u32;
            monotone(ctx, st, &tcs, s, &mut rng);
        });
        if std::env::var("VERIF_TIMING").is_ok() { eprintln!("[timing] c13.rs inner 101: {:.1}s", ctx.run.started.elapsed().as_secs_f64()); }
    }
    // whole test cases that are one long run (64..300 repeats) of a single grapheme or a short unit
    {
        let units = ["a", "-", "ab", "\u{1f4a9}", " ", "xyz", "1"];
        let lens: Vec<usize> = if ctx.thorough { vec![63, 64, 65, 80, 127, 128, 129, 200, 300] } else { vec![63, 64, 65, 80, 127, 128, 129, 150] };
        par_for(&ctx.run, units.len() * lens.len() * 6, |i, st| {
            let u = units[i % units.len()];
            // `lens` counts graphemes of the whole test case (the repetition search is cubic in it)
            let n = (lens[(i / units.len()) % lens.len()] / u.chars().count()).max(2);
            let k = i / (units.len() * lens.len());
            let tcs = if k % 2 == 0 { vec![u.repeat(n)] } else { vec![u.repeat(n), format!("{}z", u.repeat(n / 2))] };
            st.count("long_run_inputs");
            let s = Settings::with(REP, [1, 2, 5][k % 3], [1, 2, 3, 4, 2, 3][k % 6]);
            check_case(ctx, st, &tcs, s);
        });
        if std::env::var("VERIF_TIMING").is_ok() { eprintln!("[timing] c13.rs inner 102: {:.1}s", ctx.run.started.elapsed().as_secs_f64()); }
    }
    // whole test cases of 500+ identical graphemes (after class conversion)
    {
        let cases: Vec<(Vec<String>, Settings)> = vec![
            (vec!["a".repeat(500)], Settings::with(REP, 1, 2)),
            (vec!["7".repeat(505), "x".to_string()], Settings::with(REP | DIGIT, 1, 2)),
            (vec!["-".repeat(512)], Settings::with(REP, 2, 3)),
        ];
        par_for(&ctx.run, cases.len(), |i, st| {
            st.count("runs_of_500_and_more");
            check_case(ctx, st, &cases[i].0, cases[i].1);
        });
    }
    // runs of more than 1000 repeats whose count is just above a multiple of 1000
    {
        let cases: Vec<(Vec<String>, Settings)> = if ctx.thorough {
            vec![(vec!["a".repeat(1002)], Settings::with(REP, 2, 1)), (vec!["a".repeat(1005)], Settings::with(REP, 6, 1)), (vec!["ab".repeat(1003)], Settings::with(REP, 3, 2)), (vec!["a".repeat(2001), "b".to_string()], Settings::with(REP, 1, 1))]
        } else {
            vec![(vec!["a".repeat(1002)], Settings::with(REP, 2, 1)), (vec!["a".repeat(1005)], Settings::with(REP, 6, 1))]
        };
        par_for(&ctx.run, cases.len(), |i, st| {
            st.count("runs_of_more_than_1000");
            check_case(ctx, st, &cases[i].0, cases[i].1);
        });
    }
    // one long test case without immediate repetitions except at a junction placed on / next to a size at which
    // windows and chunks tend to end: a run that is too short for the thresholds must stay literal there too
    {
        let mut cases: Vec<(String, Settings)> = vec![];
        let bounds: &[usize] = if ctx.thorough { &[64, 128, 256, 300, 512, 1000, 1024, 2048] } else { &[256, 1024] };
        let th: [(u32, u32); 4] = [(2, 1), (1, 2), (3, 1), (2, 2)];
        for (j, (name, _, _, _)) in gen::JUNCTIONS.iter().enumerate() {
            let cls = if name.ends_with("digits") { DIGIT } else if name.ends_with("letters") { WORD } else if name.ends_with("blanks") { SPACE } else { 0 };
            for (k, b) in bounds.iter().enumerate() {
                for d in [-1isize, 0, 1] {
                    if !ctx.thorough && *b > 512 && d != 0 && j > 1 {
                        continue;
                    }
                    let (r, l) = th[(j + k + (d + 1) as usize) % th.len()];
                    cases.push((gen::boundary_case(j, *b, d, 9 + j), Settings::with(REP | cls, r, l)));
                    if j < 2 {
                        cases.push((gen::boundary_case(j, *b, d, 9 + j), Settings::with(REP | cls, 2, 1)));
                    }
                }
            }
        }
        par_for(&ctx.run, cases.len(), |i, st| {
            st.count("junctions_at_window_sizes");
            check_case(ctx, st, &[cases[i].0.clone()], cases[i].1);
        });
    }
    // thresholds set before conversion is enabled, with a build in between
    {
        let n = if ctx.thorough { 20_000 } else { 1_500 };
        let al = gen::alphabet("ab");
        par_for(&ctx.run, n, |i, st| {
            let mut rng = Rng::new(seed, 0x132_0000 + i as u64);
            let tcs = gen::repeat_family(&mut rng, &al);
            threshold_history(ctx, st, &tcs, 1 + rng.below(4) as u32, 1 + rng.below(3) as u32);
        });
        if std::env::var("VERIF_TIMING").is_ok() { eprintln!("[timing] c13.rs inner 103: {:.1}s", ctx.run.started.elapsed().as_secs_f64()); }
    }
    let n = if ctx.thorough { 400_000 } else { 30_000 };
    let names = ["ab", "abc", "meta", "astral", "classes", "graph", "mixed", "case", "clusters", "tokens"];
    let alphabets: Vec<(String, Vec<String>)> = names.iter().map(|a| (a.to_string(), gen::alphabet(a))).collect();
    par_for(&ctx.run, n, |i, st| {
        let mut rng = Rng::new(seed, 0x130_0000 + i as u64);
        let (name, al) = &alphabets[i % alphabets.len()];
        let tcs = if rng.chance(3, 4) { gen::repeat_family(&mut rng, al) } else { gen::family(&mut rng, al) };
        let mut s = if i % 3 == 0 { Settings::new(0) } else { gen::settings(&mut rng, OTHER) };
        st.count(&format!("random_{name}"));
        if i % 5 == 4 {
            // conversion off: no braces at all, whatever the thresholds
            s.min_rep = 1 + rng.below(6) as u32;
            s.min_len = 1 + rng.below(6) as u32;
            check_case(ctx, st, &tcs, s);
        } else {
            s.flags |= REP;
            s.min_rep = if rng.chance(1, 10) { *rng.pick(&gen::THRESHOLDS) } else { 1 + rng.below(6) as u32 };
            s.min_len = if rng.chance(1, 10) { *rng.pick(&gen::THRESHOLDS) } else { 1 + rng.below(6) as u32 };
            monotone(ctx, st, &tcs, s, &mut rng);
        }
    });
    if std::env::var("VERIF_TIMING").is_ok() { eprintln!("[timing] c13.rs block 2: {:.1}s", ctx.run.started.elapsed().as_secs_f64()); }
    ctx.run.finish(
        "cases = unary, periodic and nested-period inputs (a^i, (ab)^i, x(abc)^i y, (aab)^i c, digits, astral) x all (min_repetitions, min_substring_length) in 1..=6 x 1..=6 (+ escape/verbose/class/capture variants and the build without conversion), random repeat-rich families over 8 alphabets x random other settings x random thresholds (incl. 100 and u32::MAX), each followed by the same build with one threshold raised; one fifth of the random builds have conversion off; non-trivial = the output contains at least one counted repetition; distinct by (set of test cases, settings)",
        "per execution the regex-syntax AST of the real output is walked: with conversion off no {n}/{m,n} operator may exist; with it on every counted repetition must have upper count > min_repetitions and an operand spanning >= min_substring_length code points (nested counted repetitions multiply; code points >= grex's grapheme count, so the monitor can only under-report); raising a threshold must not introduce a quantifier where there was none",
        &["unit length is measured in code points of the operand, an upper bound of grex's grapheme count"],
        json!({}),
        false,
    )
}
