//! vharness — runtime monitors for the grex properties C01..C16.
//! usage: vharness <ID> <quick|thorough> [--seed N] [--replay FILE]
mod attrib;
mod c01;
mod c02;
mod c03;
mod c04;
mod c05;
mod c06;
mod c07;
mod c08;
mod c09;
mod c10;
mod c11;
mod c12;
mod c13;
mod c14;
mod c15;
mod c16;
mod cfg;
mod e2e;
mod gen;
mod oracle;
mod report;
mod sanitize;
mod spec;
mod stages;

use e2e::Ctx;

fn level_of(_prop: &str) -> &'static str {
    "exploration"
}

fn main() {
    let args: Vec<String> = std::env::args().collect();
    if args.len() < 2 {
        eprintln!("usage: vharness <ID> <quick|thorough> [--seed N] [--replay FILE]");
        std::process::exit(2);
    }
    if args[1] == "__c07_large" {
        std::process::exit(c07::child_main(&args[2], args[3].parse().unwrap_or(1)));
    }
    if args[1] == "__c16_dense" {
        std::process::exit(c16::dense_child_main(&args[2]));
    }
    if args[1] == "__c10_child" {
        std::process::exit(c10::child_main(args[2].parse().unwrap_or(1), args[3].parse().unwrap_or(10), args[4].parse().unwrap_or(1)));
    }
    if args[1] == "__legs" {
        // development aid: run only the sanitizer legs of C07 / C10
        cfg::install_quiet_panic_hook();
        let ctx = Ctx::new(&args[2].to_uppercase(), "thorough", 1, "exploration");
        let v = if args[2].eq_ignore_ascii_case("c07") { sanitize::miri_leg(&ctx, "c07") } else { sanitize::c10_legs(&ctx) };
        println!("{v}");
        let st = ctx.run.total.lock().unwrap();
        println!("evaluations={} decided={} counters={:?}", st.evaluations, st.decided, st.counters);
        for v in &st.verdicts {
            println!("{v:?}");
        }
        return;
    }
    let prop = args[1].to_uppercase();
    let mut tier = std::env::var("VERIF_TIER").ok().filter(|t| t == "quick" || t == "thorough").unwrap_or_else(|| "quick".to_string());
    let mut seed: u64 = std::env::var("VERIF_SEED").ok().and_then(|s| s.parse().ok()).unwrap_or(1);
    let mut replay: Option<String> = None;
    let mut i = 2;
    while i < args.len() {
        match args[i].as_str() {
            "quick" | "thorough" => tier = args[i].clone(),
            "--seed" => {
                i += 1;
                seed = args[i].parse().expect("seed");
            }
            "--replay" => {
                i += 1;
                replay = Some(args[i].clone());
            }
            other => {
                eprintln!("unknown argument {other}");
                std::process::exit(2);
            }
        }
        i += 1;
    }
    cfg::install_quiet_panic_hook();
    // generous wall-clock watchdog: a run that does not finish is inconclusive (exit 4), never a verdict
    {
        let limit = std::env::var("VERIF_WATCHDOG_S").ok().and_then(|s| s.parse().ok()).unwrap_or(if tier == "thorough" { 6 * 3600 } else { 40 * 60 });
        let prop = prop.clone();
        std::thread::spawn(move || {
            std::thread::sleep(std::time::Duration::from_secs(limit));
            println!("[{prop}] INCONCLUSIVE: watchdog fired after {limit}s (no verdict)");
            std::process::exit(4);
        });
    }
    let ctx = Ctx::new(&prop, &tier, seed, level_of(&prop));
    if let Some(path) = replay {
        let v: serde_json::Value = serde_json::from_str(&std::fs::read_to_string(&path).expect("read replay")).expect("parse replay");
        let case = &v["case"];
        match prop.as_str() {
            "C01" => c01::replay(&ctx, case),
            "C02" => c02::replay(&ctx, case),
            "C03" => c03::replay(&ctx, case),
            "C04" => c04::replay(&ctx, case),
            "C05" => c05::replay(&ctx, case),
            "C06" => c06::replay(&ctx, case),
            "C07" => c07::replay(&ctx, case),
            "C08" => c08::replay(&ctx, case),
            "C09" => c09::replay(&ctx, case),
            "C10" => c10::replay(&ctx, case),
            "C11" => c11::replay(&ctx, case),
            "C12" => c12::replay(&ctx, case),
            "C13" => c13::replay(&ctx, case),
            "C14" => c14::replay(&ctx, case),
            "C15" => c15::replay(&ctx, case),
            "C16" => c16::replay(&ctx, case),
            _ => {
                eprintln!("no replay for {prop}");
                std::process::exit(2);
            }
        }
        let st = ctx.run.total.lock().unwrap();
        let mut code = 0;
        for v in &st.verdicts {
            match v {
                report::Verdict::Violation { kind, detail, .. } => {
                    println!("VIOLATION property={prop} replay={path}\n  kind={kind} detail={detail}");
                    code = 1;
                }
                report::Verdict::Known { id, what, .. } => println!("KNOWN-FINDING: property={prop} [{id}] {what}"),
                report::Verdict::Inconclusive { why } => println!("INCONCLUSIVE: {why}"),
            }
        }
        if code == 0 {
            println!("replay: property held on this case");
        }
        std::process::exit(code);
    }
    let code = match prop.as_str() {
        "C01" => c01::run(&ctx),
        "C02" => c02::run(&ctx),
        "C03" => c03::run(&ctx),
        "C04" => c04::run(&ctx),
        "C05" => c05::run(&ctx),
        "C06" => c06::run(&ctx),
        "C07" => c07::run(&ctx),
        "C08" => c08::run(&ctx),
        "C09" => c09::run(&ctx),
        "C10" => c10::run(&ctx),
        "C11" => c11::run(&ctx),
        "C12" => c12::run(&ctx),
        "C13" => c13::run(&ctx),
        "C14" => c14::run(&ctx),
        "C15" => c15::run(&ctx),
        "C16" => c16::run(&ctx),
        _ => {
            eprintln!("unknown property {prop}");
            2
        }
    };
    std::process::exit(code);
}
