//! C02 — exactness with default settings: L(output) == set of test cases, over all Unicode strings.
use crate::cfg::*;
use crate::e2e::{expect_equal, Ctx, Outcome};
use crate::gen::{self, Rng};
use crate::oracle::real_regex;
use crate::report::*;
use crate::spec;
use serde_json::json;

pub fn check_case(ctx: &Ctx, st: &mut Stats, tcs: &[String], s: Settings) {
    st.evaluations += 1;
    let (res, ev) = build_ev(tcs, s);
    let out = match res {
        Ok(o) => o,
        Err(p) => {
            st.violation("panic", format!("build() panicked: {p}"), case_json(tcs, s));
            return;
        }
    };
    let sp = spec::spec(&ctx.classes, tcs, s);
    let o = expect_equal(ctx, st, "language_differs_from_test_cases", &wrap_full(&out, s), &sp, tcs, s, &out, &ev, json!(null), None);
    if o != Outcome::Inconclusive {
        st.decided += 1;
        if gen::nontrivial(tcs) {
            st.distinct.insert(gen::hash_case(tcs, s));
        }
    }
    if o == Outcome::Held {
        st.count("held");
        // oracle sanity in the "held" direction: members and near misses through the real engine
        if st.evaluations % 16 == 0 {
            sanity(st, tcs, &out);
        }
        st.sample(json!({"test_cases": tcs, "output": out, "spec": sp, "verdict": "languages equal"}));
    }
}

/// Near misses (proper prefixes, one character dropped/changed/doubled, cross combinations) must be
/// rejected by the real engine unless they are test cases; every test case must be accepted.
fn sanity(st: &mut Stats, tcs: &[String], out: &str) {
    let Ok(re) = real_regex(out) else { return };
    let set: std::collections::HashSet<&str> = tcs.iter().map(|s| s.as_str()).collect();
    let mut probes: Vec<String> = vec![String::new()];
    for t in tcs {
        let cs: Vec<char> = t.chars().collect();
        for i in 0..cs.len() {
            probes.push(cs[..i].iter().collect());
            let mut d = cs.clone();
            d.remove(i);
            probes.push(d.iter().collect());
            let mut e = cs.clone();
            e.insert(i, cs[i]);
            probes.push(e.iter().collect());
        }
        for u in tcs {
            let us: Vec<char> = u.chars().collect();
            let k = cs.len() / 2;
            let l = us.len() / 2;
            probes.push(cs[..k].iter().chain(us[l..].iter()).collect());
        }
        probes.push(format!("{t}{t}"));
    }
    for p in probes.iter().take(200) {
        st.count("sanity_probes");
        let expect = set.contains(p.as_str());
        if re.is_match(p) != expect {
            // E1 said equal but the engine disagrees on a probe: the oracle is unsound here
            st.violation(
                "oracle_sanity",
                format!("E1 reported equality but regex::Regex {} probe {:?}", if expect { "rejects" } else { "accepts" }, p),
                json!({"test_cases": tcs, "settings": Settings::new(0).to_json(), "output": out, "probe": p}),
            );
            return;
        }
    }
}

pub fn replay(ctx: &Ctx, case: &serde_json::Value) {
    let (tcs, s) = case_from_json(case);
    let mut st = Stats::new();
    check_case(ctx, &mut st, &tcs, s);
    ctx.run.merge(st);
}

pub fn run(ctx: &Ctx) -> i32 {
    let seed = ctx.seed();
    let s0 = Settings::new(0);
    let w_ab = gen::words(&["a", "b"], 3);
    let w_abc = gen::words(&["a", "b", "c"], 2);
    let w_ab4: Vec<String> = gen::words(&["a", "b"], 4).into_iter().filter(|w| !w.is_empty()).collect();
    let max_set = if ctx.thorough { 15 } else { 4 };
    for (name, words, max) in [("ab3", &w_ab, max_set), ("abc2", &w_abc, max_set), ("ab4", &w_ab4, if ctx.thorough { 4 } else { 2 })] {
        let subs = gen::subsets(words.len(), max.min(words.len()));
        par_for(&ctx.run, subs.len(), |i, st| {
            st.count(&format!("exhaustive_{name}_sets"));
            check_case(ctx, st, &gen::pick_subset(words, subs[i]), s0);
        });
    }
    // one-character strings over metacharacters / blanks: become character classes
    let mut singles = gen::alphabet("meta");
    singles.extend(gen::alphabet("ws"));
    singles.extend(gen::alphabet("sgr"));
    singles.sort();
    singles.dedup();
    let mut combos: Vec<Vec<usize>> = vec![];
    for i in 0..singles.len() {
        combos.push(vec![i]);
        for j in i + 1..singles.len() {
            combos.push(vec![i, j]);
            if ctx.thorough {
                for l in j + 1..singles.len() {
                    combos.push(vec![i, j, l]);
                }
            }
        }
    }
    par_for(&ctx.run, combos.len(), |i, st| {
        st.count("one_char_sets");
        let tcs: Vec<String> = combos[i].iter().map(|&x| singles[x].clone()).collect();
        check_case(ctx, st, &tcs, s0);
    });
    // every set of <= 3 one-character ASCII strings (341,376 + 8,128 + 128 sets): all character classes
    // and ranges over ASCII, control characters included
    let ascii: Vec<String> = (0u8..128).map(|b| (b as char).to_string()).collect();
    let mut triples: Vec<[u8; 3]> = vec![];
    for a in 0u8..128 {
        triples.push([a, a, a]);
        for b in a + 1..128 {
            triples.push([a, b, b]);
            for c in b + 1..128 {
                triples.push([a, b, c]);
            }
        }
    }
    par_for(&ctx.run, triples.len(), |i, st| {
        let t = triples[i];
        let mut tcs = vec![ascii[t[0] as usize].clone()];
        if t[1] != t[0] {
            tcs.push(ascii[t[1] as usize].clone());
        }
        if t[2] != t[1] {
            tcs.push(ascii[t[2] as usize].clone());
        }
        st.count("ascii_one_char_sets_exhaustive");
        check_case(ctx, st, &tcs, s0);
    });
    // every set of <= 3 one-character strings over the code points around the UTF-8/UTF-16/plane
    // boundaries and the surrogate gap
    let bcp: Vec<String> = gen::boundary_code_points().into_iter().map(|c| c.to_string()).collect();
    let mut bsets: Vec<Vec<String>> = vec![];
    for a in 0..bcp.len() {
        for b in a + 1..bcp.len() {
            bsets.push(vec![bcp[a].clone(), bcp[b].clone()]);
            for c in b + 1..bcp.len() {
                bsets.push(vec![bcp[a].clone(), bcp[b].clone(), bcp[c].clone()]);
            }
        }
    }
    par_for(&ctx.run, bsets.len(), |i, st| {
        st.count("boundary_code_point_sets_exhaustive");
        check_case(ctx, st, &bsets[i], s0);
    });
    // code points at arithmetic distances from the encoding boundaries (position arithmetic slips)
    {
        let far = gen::far_neighbour_sets();
        par_for(&ctx.run, far.len(), |i, st| {
            st.count("far_neighbour_sets");
            check_case(ctx, st, &far[i], s0);
        });
    }
    // contiguous code point runs (character class ranges a-c) incl. around '-', '^', ']' and '\\'
    let runs: Vec<(u32, u32)> = vec![(0x28, 0x30), (0x58, 0x62), (0x7a, 0x82), (0x2d, 0x2f), (0x5b, 0x5e), (0xfffd, 0x10002), (0x10fffd, 0x10ffff), (0x1b, 0x22)];
    par_for(&ctx.run, runs.len() * 8, |i, st| {
        let (lo, hi) = runs[i % runs.len()];
        let mut rng = Rng::new(seed, 0x5000 + i as u64);
        let tcs: Vec<String> = (lo..=hi).filter_map(char::from_u32).filter(|_| i < runs.len() || rng.chance(3, 4)).map(|c| c.to_string()).collect();
        if !tcs.is_empty() {
            st.count("class_range_sets");
            check_case(ctx, st, &tcs, s0);
        }
    });
    // medium-sized inputs: many / long test cases, many distinct symbols, long repeats, deep prefix chains
    {
        let n = if ctx.thorough { 8000 } else { 500 };
        let names = ["ab", "abc", "mixed", "meta", "graph", "clusters", "astral"];
        let als: Vec<Vec<String>> = names.iter().map(|a| gen::alphabet(a)).collect();
        par_for(&ctx.run, n, |i, st| {
            let mut rng = Rng::new(seed, 0x21_0000 + i as u64);
            let tcs = gen::medium_family(&mut rng, &als[i % als.len()]);
            let tcs: Vec<String> = tcs.into_iter().filter(|t| !t.is_empty()).collect();
            if tcs.is_empty() {
                return;
            }
            st.count("medium_sized_inputs");
            check_case(ctx, st, &tcs, s0);
        });
    }
    // states with very many outgoing edges next to multi-code-point graphemes and their lone first code points
    {
        let fanouts = [33usize, 34, 40, 65, 70, 129, 140, 257, 300];
        let n = if ctx.thorough { 1800 } else { 72 };
        par_for(&ctx.run, n, |i, st| {
            let mut rng = Rng::new(seed, 0x23_0000 + i as u64);
            let tcs = gen::wide_fanout_family(&mut rng, fanouts[i % fanouts.len()]);
            st.count("wide_fanout_families");
            check_case(ctx, st, &tcs, s0);
        });
    }
    // thousands of automaton states
    par_for(&ctx.run, if ctx.thorough { 6 } else { 2 }, |i, st| {
        let mut rng = Rng::new(seed, 0x22_0000 + i as u64);
        let letters: Vec<String> = "abcdefghijklmnopqrstuvwxyz".chars().map(|c| c.to_string()).collect();
        let tcs: Vec<String> = (0..58 + 5 * i).map(|_| (0..40).map(|_| rng.pick(&letters).clone()).collect()).collect();
        st.count("thousands_of_states_inputs");
        check_case(ctx, st, &tcs, s0);
    });
    let n = if ctx.thorough { 500_000 } else { 30_000 };
    let alphabets: Vec<(String, Vec<String>)> = gen::ALPHABETS.iter().map(|a| (a.to_string(), gen::alphabet(a))).collect();
    par_for(&ctx.run, n, |i, st| {
        let mut rng = Rng::new(seed, 0x20_0000 + i as u64);
        let (name, al) = &alphabets[i % alphabets.len()];
        let tcs = if rng.chance(1, 5) { gen::repeat_family(&mut rng, al) } else { gen::family(&mut rng, al) };
        st.count(&format!("random_{name}"));
        check_case(ctx, st, &tcs, s0);
    });
    ctx.run.finish(
        "default settings; cases = all subsets (size<=4 quick, all sizes thorough) of {a,b}^<=3 and {a,b,c}^<=2 incl. the empty string, small subsets of {a,b}^<=4, all small sets of one-character metacharacter/blank/SGR strings, contiguous code-point runs, structured random families over 10 adversarial alphabets; non-trivial as in C01; distinct by set of test cases",
        "per execution the question 'does the pattern accept any string other than the test cases' is decided exactly over all Unicode strings by DFA equivalence (regex-automata dense DFAs of output and of the \\x{..} alternation of the test cases); any witness is re-validated with regex::Regex; a sample of held cases is cross-checked with near-miss probes through regex::Regex",
        &["regex-syntax 0.8.4 / regex-automata 0.4.7 (the versions locked by the repository) define what a pattern denotes", "inputs are sampled except the bounded-exhaustive families"],
        json!({"exhaustive_subset_size_limit": max_set}),
        false,
    )
}
