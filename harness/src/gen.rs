//! E3 — workload generators. Everything derives from VERIF_SEED; no wall clock.
use crate::cfg::*;

#[derive(Clone)]
pub struct Rng(pub u64);

impl Rng {
    pub fn new(seed: u64, stream: u64) -> Self {
        let mut r = Rng(seed.wrapping_mul(0x9E37_79B9_7F4A_7C15) ^ stream.wrapping_mul(0xD1B5_4A32_D192_ED03) ^ 0x2545_F491_4F6C_DD1D);
        if r.0 == 0 {
            r.0 = 1;
        }
        for _ in 0..4 {
            r.next();
        }
        r
    }
    pub fn next(&mut self) -> u64 {
        self.0 ^= self.0 << 13;
        self.0 ^= self.0 >> 7;
        self.0 ^= self.0 << 17;
        self.0.wrapping_mul(0x2545_F491_4F6C_DD1D)
    }
    pub fn below(&mut self, n: usize) -> usize {
        (self.next() % (n.max(1) as u64)) as usize
    }
    pub fn chance(&mut self, num: usize, den: usize) -> bool {
        self.below(den) < num
    }
    pub fn pick<'a, T>(&mut self, v: &'a [T]) -> &'a T {
        &v[self.below(v.len())]
    }
    pub fn shuffle<T>(&mut self, v: &mut [T]) {
        for i in (1..v.len()).rev() {
            let j = self.below(i + 1);
            v.swap(i, j);
        }
    }
}

pub const ALPHABETS: [&str; 13] = ["ab", "abc", "meta", "ws", "case", "graph", "astral", "classes", "sgr", "mixed", "clusters", "tokens", "sigma"];

/// Unsplit multi-code-point graphemes mixing characters that are escaped/converted with ones that
/// are not: Lo Prepend letters before X, and X before Extend characters that are not marks.
pub fn cluster_tokens() -> Vec<String> {
    let prepend = ["\u{d4e}", "\u{111c2}", "\u{11a3a}"];
    let extend = ["\u{1f3fb}", "\u{1f3fd}", "\u{e33}", "\u{ff9e}"];
    let xs = ["\\", ".", "1", "a", "\u{e9}", "^", " ", "\u{1f44d}"];
    let mut v = vec![];
    for x in xs {
        for p in prepend {
            v.push(format!("{p}{x}"));
        }
        v.push(format!("\u{d4e}\u{d4e}{x}"));
        for e in extend {
            v.push(format!("{x}{e}"));
        }
    }
    v.push("\u{d4e}\u{111c2}\\".to_string());
    v
}

/// Deterministic inputs around every cluster token: repeated (so that a quantifier has to bind to
/// the whole grapheme), next to a shorter repeat, and inside an alternation.
pub fn cluster_repeat_cases() -> Vec<Vec<String>> {
    let mut v = vec![];
    for t in cluster_tokens() {
        v.push(vec![t.repeat(3)]);
        v.push(vec![format!("x{}", t.repeat(2)), format!("x{}y", t.repeat(3))]);
        v.push(vec![t.clone(), format!("{t}{t}"), "z".to_string()]);
    }
    v
}

/// Literal text that looks like one of grex's internal class tokens (`\d` ...) next to members of that
/// class, single and repeated: (test cases, class flag).
pub fn token_lookalike_cases() -> Vec<(Vec<String>, u32)> {
    let table = [("d", DIGIT, "1"), ("w", WORD, "a"), ("s", SPACE, " "), ("D", NDIGIT, "a"), ("W", NWORD, "-"), ("S", NSPACE, "a")];
    let mut v = vec![];
    for (l, f, m) in table {
        let lit = format!("\\{l}");
        v.push((vec![lit.clone(), m.to_string()], f));
        v.push((vec![lit.repeat(2), m.repeat(2)], f));
        v.push((vec![format!("x{}", lit.repeat(3)), format!("x{}", m.repeat(3))], f));
        v.push((vec![lit.repeat(2), m.repeat(2), "y".to_string()], f));
        v.push((vec![format!("{}{}", lit.repeat(2), m.repeat(2))], f));
        v.push((vec![format!("{m}{lit}{m}{lit}"), format!("{m}{m}{m}{m}")], f));
        // the same runs behind different, otherwise indistinguishable prefixes
        v.push((vec![format!("x{}", lit.repeat(2)), format!("y{}", m.repeat(2))], f));
        v.push((vec![format!("x{}z", lit.repeat(3)), format!("y{}z", m.repeat(3))], f));
        v.push((vec![format!("x{}", lit.repeat(2)), format!("y{}", m.repeat(2)), format!("q{}", m.repeat(2))], f));
    }
    v
}

/// Periods nested `depth` levels deep: ((((u^a v)^b w)^c x)^d ...), every level repeated 2-3 times.
pub fn nested_periods(rng: &mut Rng, al: &[String], depth: usize) -> String {
    // mostly two repeats per level so that depth 5 stays below ~100 graphemes (the search is cubic)
    let reps = |rng: &mut Rng| if depth <= 3 && rng.chance(1, 3) { 3 } else { 2 };
    let mut s = rng.pick(al).repeat(reps(rng));
    for _ in 1..depth {
        let x = rng.pick(al).clone();
        s.push_str(&x);
        s = s.repeat(reps(rng));
    }
    s
}

/// Code points within +-3 of the UTF-8 / UTF-16 / plane boundaries and the surrogate gap.
pub fn boundary_code_points() -> Vec<char> {
    let mut v = vec![];
    for b in [0x80u32, 0x100, 0x800, 0xD800, 0xE000, 0x10000, 0x20000, 0x110000] {
        for d in -3i64..=3 {
            if let Some(c) = char::from_u32((b as i64 + d) as u32) {
                v.push(c);
            }
        }
    }
    v.sort();
    v.dedup();
    v
}

/// Sets {p-1, p, b} and {b, p, p+1} where b is a code point next to an encoding boundary and p = b + d for
/// distances d that are typical slips of position arithmetic (size of the surrogate block +-1, 0x100, ...):
/// if p and b were wrongly taken for neighbours, the class would be printed as a range.
pub fn far_neighbour_sets() -> Vec<Vec<String>> {
    let mut v = vec![];
    let ch = |x: i64| if x >= 0 { char::from_u32(x as u32) } else { None };
    for b in boundary_code_points() {
        let b = b as i64;
        for d in [0x800i64, 0x801, 0x7ff, 0x100, 0x1000, 0x10000, 0x2000] {
            for sign in [-1i64, 1] {
                let p = b + sign * d;
                for set in [[ch(p - 1), ch(p), ch(b)], [ch(b), ch(p), ch(p + 1)], [ch(p - 1), ch(p), ch(b + 1)]] {
                    if set.iter().all(|c| c.is_some()) {
                        let mut t: Vec<String> = set.iter().map(|c| c.unwrap().to_string()).collect();
                        t.sort();
                        t.dedup();
                        if t.len() == 3 {
                            v.push(t);
                        }
                    }
                }
            }
        }
    }
    v.sort();
    v.dedup();
    v
}

/// At least 32 test cases of the shape <letter><member of a class> plus literal text resembling the
/// token of that class, e.g. a0..j3 and `a\d`: (test cases, class flag).
pub fn many_lookalike_cases() -> Vec<(Vec<String>, u32)> {
    let table: [(&str, u32, &[&str]); 6] = [
        ("d", DIGIT, &["0", "1", "2", "3"]),
        ("w", WORD, &["a", "b", "_", "1"]),
        ("s", SPACE, &[" ", "\t", "\u{a0}", "\n"]),
        ("D", NDIGIT, &["a", "b", "-", " "]),
        ("W", NWORD, &["-", ".", "!", " "]),
        ("S", NSPACE, &["a", "b", "-", "1"]),
    ];
    let mut v = vec![];
    for (l, f, members) in table {
        let mut tcs = vec![];
        for c in "ghijklmnopq".chars() {
            for m in members {
                tcs.push(format!("{c}{m}"));
            }
        }
        tcs.push(format!("g\\{l}"));
        tcs.push(format!("h\\{l}"));
        tcs.push(format!("\\{l}"));
        tcs.push(members[0].to_string());
        v.push((tcs, f));
    }
    v
}

/// One or two long test cases over many distinct symbols of different classes, with early symbols
/// recurring late (caches / memo tables keyed by character would show here).
pub fn wide_case(rng: &mut Rng) -> Vec<String> {
    let mut pool: Vec<char> = vec![];
    pool.extend("abcdefghijklmnopqrstuvwxyzABCDEFGHIJKLMNOPQRSTUVWXYZ".chars());
    pool.extend("0123456789 _-.,;:!?\t".chars());
    pool.extend("\u{e9}\u{e8}\u{fc}\u{df}\u{3b1}\u{3b2}\u{3b3}\u{661}\u{662}\u{a0}\u{2003}\u{4e2d}\u{6587}".chars());
    // characters of one general category that differ in class membership (So: enclosed alphanumerics are \w,
    // other symbols are not; Po: U+111C9 is \w; No / Nl / Lm / Sk / Pc mates)
    pool.extend("\u{24b6}\u{24e9}\u{1f170}\u{1f130}\u{a9}\u{ae}\u{2192}\u{2605}\u{111c9}\u{b2}\u{2167}\u{2b0}\u{5e}\u{203f}\u{b7}\u{2e2f}".chars());
    // astral letters, digits, symbols and the very last planes
    pool.extend("\u{10400}\u{1d7ce}\u{1f600}\u{1fbf9}\u{1fbfa}\u{20000}\u{2a700}\u{30000}\u{e0100}\u{f0000}\u{10ffff}".chars());
    let n = 1 + rng.below(2);
    (0..n)
        .map(|_| {
            let mut p = pool.clone();
            rng.shuffle(&mut p);
            let k = 34 + rng.below(60);
            let mut s: Vec<char> = p[..k.min(p.len())].to_vec();
            // early symbols come back after many others
            for _ in 0..3 + rng.below(6) {
                let c = s[rng.below(8)];
                s.push(c);
            }
            s.into_iter().collect()
        })
        .collect()
}

/// Runs of three consecutive code points at the same offset in different 256-blocks / planes (code
/// points that collide when truncated to 8 or 16 bits), as sets of one-character test cases.
pub fn shifted_run_sets() -> Vec<Vec<String>> {
    let mut v = vec![];
    for base in [0x61u32, 0x30, 0x4e00, 0x3b1] {
        for shift in [0u32, 0x100, 0x1000, 0x10000, 0x20000, 0x100000] {
            let set: Vec<String> = (0..3).filter_map(|k| char::from_u32(base + shift + k)).map(|c| c.to_string()).collect();
            if set.len() == 3 {
                // a class that contains only the first code point of the run (no range), and the run itself
                v.push(vec![set[0].clone(), "!".to_string()]);
                v.push(set);
            }
        }
    }
    v
}

/// Two or three prefixes, each followed by a unit repeated k times for every k in its own set of counts
/// (all pairs of non-empty subsets of {1..5}): the shape in which states with different sets of repeat
/// counts sit behind otherwise equivalent prefixes.
pub fn count_set_cases() -> Vec<Vec<String>> {
    let mut v = vec![];
    for sx in 1u32..32 {
        for sy in 1u32..32 {
            if sx == sy {
                continue;
            }
            let mut tcs = vec![];
            for k in 0..5 {
                if sx & (1 << k) != 0 {
                    tcs.push(format!("x{}", "a".repeat(k + 1)));
                }
                if sy & (1 << k) != 0 {
                    tcs.push(format!("y{}", "a".repeat(k + 1)));
                }
            }
            v.push(tcs);
        }
    }
    v
}

/// Test cases x^i y^j + suffix: with repetition conversion the prefixes x{i}y{j} of different test cases fold
/// into shared trie states, so the suffix edges of one state are inserted in the order of the *whole* strings;
/// a second, plain prefix reaches the same suffixes in another order.
pub fn merged_prefix_family(rng: &mut Rng, sigma: &[&str]) -> Vec<String> {
    let x = *rng.pick(sigma);
    let y = *rng.pick(sigma);
    let z = *rng.pick(sigma);
    let sufs = [z.to_string(), z.repeat(3), z.repeat(2), format!("{z}{x}"), String::new(), z.repeat(4)];
    let mut tcs = vec![];
    for _ in 0..3 + rng.below(5) {
        let i = 1 + rng.below(3);
        let j = rng.below(3);
        tcs.push(format!("{}{}{}", x.repeat(i), y.repeat(j), rng.pick(&sufs)));
    }
    for _ in 0..rng.below(3) {
        tcs.push(format!("{}{}", y, rng.pick(&sufs)));
    }
    tcs.retain(|t| !t.is_empty());
    if tcs.is_empty() {
        tcs.push(x.to_string());
    }
    tcs
}

/// Every blank / ignorable character repeated where no atom precedes it (start of the pattern, start
/// of a group, after `|`), for verbose mode.
pub fn blank_repeat_cases() -> Vec<Vec<String>> {
    let mut v = vec![];
    for c in alphabet("ws") {
        if c == "a" {
            continue;
        }
        v.push(vec![format!("{}a", c.repeat(3)), "b".to_string()]);
        v.push(vec![c.repeat(3)]);
        v.push(vec![format!("a{}", c.repeat(3)), format!("a{}", c.repeat(2)), "b".to_string()]);
        v.push(vec![format!("{c}x"), format!("{c}y"), c.clone()]);
    }
    v
}

/// Uniformly random words over a tiny alphabet: 2..=9 test cases of length 1..=9 (the shape on which
/// hash-order dependence of the minimiser was observed about once in 3000 sets).
pub fn uniform_small(rng: &mut Rng, sigma: &[&str]) -> Vec<String> {
    let n = 2 + rng.below(8);
    (0..n)
        .map(|_| {
            let l = 1 + rng.below(9);
            (0..l).map(|_| *rng.pick(sigma)).collect::<String>()
        })
        .collect()
}

pub fn alphabet(name: &str) -> Vec<String> {
    if name == "clusters" {
        let mut v = cluster_tokens();
        v.extend(["a", "b", "1", ".", "\\", "\u{d4e}", "\u{1f3fb}"].iter().map(|s| s.to_string()));
        return v;
    }
    let v: Vec<&str> = match name {
        "ab" => vec!["a", "b"],
        "abc" => vec!["a", "b", "c"],
        "meta" => vec![
            "a", "\\", ".", "(", ")", "[", "]", "{", "}", "+", "*", "-", "?", "|", "^", "$", "#", " ", "1", "&", "~", ":", "<", ">", "=", "!", ",", "/",
            "d", "x", "n", "u",
        ],
        "ws" => vec![
            "a", " ", "#", "\t", "\n", "\u{b}", "\u{c}", "\r", "\u{85}", "\u{a0}", "\u{1680}", "\u{2000}", "\u{2003}", "\u{200a}", "\u{2028}",
            "\u{2029}", "\u{202f}", "\u{205f}", "\u{3000}", "\u{feff}", "\u{200b}", "\u{200e}", "\u{200f}", "\u{180e}", "\u{1c}", "\u{1f}",
        ],
        "case" => vec![
            "a", "A", "b", "B", "İ", "ẞ", "ß", "σ", "ς", "Σ", "\u{212a}", "k", "K", "ǅ", "ǆ", "Ǆ", "Ꭰ", "ꭰ", "ı", "I", "i", "ſ", "s", "S", "é", "É",
            "\u{1c89}", "\u{1c8a}", "µ", "μ", "Μ", "\u{2126}", "ω", "Ω", "\u{1e9e}", "ᾳ", "ᾼ", "ǰ", "ŉ", "ﬁ", "1", "-", "中", "\u{307}", "I\u{307}", "i\u{307}",
            "\u{a7cb}", "\u{264}", "\u{a7dc}", "\u{19b}",
        ],
        "graph" => vec![
            "a", "e", "\u{301}", "\u{308}", "\u{200d}", "👩", "💻", "🇩", "🇪", "🇺", "\u{1100}", "\u{1161}", "\u{11a8}", "\u{600}", "1", "\\",
            "\u{fe0f}", "❤", "\u{0903}", "\u{e0001}", "\u{378}", "\u{d4e}", "\r", "\n", "\u{11003}", "\u{ff9e}", "\u{ac00}", "^", "|", "\u{1f3fb}", "👍",
        ],
        "astral" => vec![
            "a", "\u{7f}", "\u{80}", "é", "\u{100}", "\u{fff}", "\u{1000}", "\u{ffff}", "\u{10000}", "💩", "\u{fffff}", "\u{100000}", "\u{10ffff}",
            "\u{10fffe}", "♥", "\u{d7ff}", "\u{e000}", "\u{1f4a9}", "\u{301}", "z",
        ],
        "classes" => vec![
            "a", "1", "2", "٣", "_", " ", "-", "\u{a0}", "é", "²", "Ⅷ", "\u{1d7ce}", ".", "Z", "\t", "\u{2003}", "９", "中", "\u{301}", "💩", "!", "\u{200d}",
        ],
        // literal text that looks like grex's internal class tokens and escapes, next to members of those classes
        "tokens" => vec!["\\", "d", "D", "w", "W", "s", "S", "1", "a", " ", "-", "u", "{", "}", "n"],
        // letters whose lower-casing depends on context or that share a fold orbit without being case variants
        "sigma" => vec!["a", "b", "A", "\u{3c3}", "\u{3c2}", "\u{3a3}", "s", "\u{17f}", "S", "k", "\u{212a}", "\u{b5}", "\u{3bc}", "\u{39c}"],
        // lower-case letters only that the engine folds onto each other (two spellings, no case difference)
        "sigma_lower" => vec!["a", "b", "\u{3c3}", "\u{3c2}", "s", "\u{17f}", "\u{b5}", "\u{3bc}", "c"],
        "sgr" => vec!["\u{1b}", "[", "m", "0", "1", "3", ";", "]", "a", "^", "$", "(", ")", "\\", "9", " "],
        "mixed" => vec![
            "a", "b", "A", "1", " ", ".", "\\", "é", "💩", "\u{301}", "\n", "#", "-", "^", "]", "\u{a0}", "ß", "\u{10ffff}", "x", "y", "|", "(", "*",
        ],
        _ => panic!("unknown alphabet {name}"),
    };
    v.into_iter().map(|s| s.to_string()).collect()
}

/// All words over `sigma` of length <= k, including the empty word, shortest first.
pub fn words(sigma: &[&str], k: usize) -> Vec<String> {
    let mut all = vec![String::new()];
    let mut layer = vec![String::new()];
    for _ in 0..k {
        let mut nl = vec![];
        for w in &layer {
            for s in sigma {
                nl.push(format!("{w}{s}"));
            }
        }
        all.extend(nl.iter().cloned());
        layer = nl;
    }
    all
}

/// All non-empty subsets of 0..n with at most `max` elements, as bit masks, in a fixed order.
pub fn subsets(n: usize, max: usize) -> Vec<u32> {
    assert!(n <= 31);
    let mut out = vec![];
    for m in 1u32..(1u32 << n) {
        if (m.count_ones() as usize) <= max {
            out.push(m);
        }
    }
    out
}

pub fn pick_subset(words: &[String], mask: u32) -> Vec<String> {
    (0..words.len()).filter(|i| mask & (1 << i) != 0).map(|i| words[i].clone()).collect()
}

/// Structured random family of 1..=6 test cases (E3.2).
pub fn family(rng: &mut Rng, al: &[String]) -> Vec<String> {
    let n = 1 + rng.below(6);
    let unit = |rng: &mut Rng| -> String {
        let l = 1 + rng.below(3);
        (0..l).map(|_| rng.pick(al).clone()).collect()
    };
    let base: String = (0..rng.below(4)).map(|_| rng.pick(al).clone()).collect();
    let shape = rng.below(8);
    let mut tcs: Vec<String> = vec![];
    match shape {
        // prefix chain t, tx, txy
        0 => {
            let mut cur = base.clone();
            for _ in 0..n {
                tcs.push(cur.clone());
                cur.push_str(&unit(rng));
            }
        }
        // near-duplicates differing in one position
        1 => {
            let gs: Vec<String> = (0..1 + rng.below(5)).map(|_| rng.pick(al).clone()).collect();
            for _ in 0..n {
                let mut g = gs.clone();
                if rng.chance(3, 4) {
                    let i = rng.below(g.len());
                    g[i] = rng.pick(al).clone();
                }
                tcs.push(g.concat());
            }
        }
        // repeats of units, shared prefix with different counts
        2 => {
            let u = unit(rng);
            let tail: Vec<String> = (0..3).map(|_| rng.pick(al).clone()).collect();
            for _ in 0..n {
                let mut s = String::new();
                if rng.chance(1, 2) {
                    s.push_str(&base);
                }
                s.push_str(&u.repeat(1 + rng.below(6)));
                if rng.chance(2, 3) {
                    s.push_str(rng.pick(&tail[..]).as_str());
                }
                if rng.chance(1, 4) {
                    s.push_str(&u.repeat(1 + rng.below(3)));
                }
                tcs.push(s);
            }
        }
        // nested periods ((u)^i v)^j
        3 => {
            let u = unit(rng);
            let v = unit(rng);
            for _ in 0..n {
                let inner = format!("{}{}", u.repeat(1 + rng.below(4)), v);
                let mut s = inner.repeat(1 + rng.below(4));
                if rng.chance(1, 3) {
                    s.push_str(&unit(rng));
                }
                tcs.push(s);
            }
        }
        // periods nested three deep (((u)^i v)^j x)^k
        4 => {
            let u = rng.pick(al).clone();
            let v = rng.pick(al).clone();
            let x = rng.pick(al).clone();
            for _ in 0..n.min(3) {
                let inner = format!("{}{}", u.repeat(2 + rng.below(2)), v);
                let mid = format!("{}{}", inner.repeat(2 + rng.below(2)), x);
                let mut s = if rng.chance(3, 4) { mid.repeat(2 + rng.below(2)) } else { { let d = 4 + rng.below(2); nested_periods(rng, &[u.clone(), v.clone(), x.clone()], d) } };
                if rng.chance(1, 3) {
                    s.push_str(&unit(rng));
                }
                tcs.push(s);
            }
        }
        // common base as prefix / suffix / infix, otherwise free
        _ => {
            for _ in 0..n {
                let mut s = String::new();
                let mode = rng.below(4);
                if mode == 0 {
                    s.push_str(&base);
                }
                for _ in 0..rng.below(5) {
                    let g = rng.pick(al).clone();
                    let r = if rng.chance(1, 4) { 1 + rng.below(4) } else { 1 };
                    for _ in 0..r {
                        s.push_str(&g);
                    }
                    if mode == 2 && rng.chance(1, 3) {
                        s.push_str(&base);
                    }
                }
                if mode == 1 {
                    s.push_str(&base);
                }
                tcs.push(s);
            }
        }
    }
    if rng.chance(1, 4) {
        tcs.push(String::new());
    }
    rng.shuffle(&mut tcs);
    if tcs.is_empty() {
        tcs.push(unit(rng));
    }
    tcs
}

/// Medium-sized inputs (many test cases, long test cases, many distinct symbols, long repeats): the
/// size range in which size-dependent behaviour (limits, heuristics, "optimisations") would show.
pub fn medium_family(rng: &mut Rng, al: &[String]) -> Vec<String> {
    let word = |rng: &mut Rng, lo: usize, span: usize| -> String {
        let n = lo + rng.below(span.max(1));
        (0..n).map(|_| rng.pick(al).clone()).collect()
    };
    match rng.below(6) {
        // many short test cases over a small alphabet: dense trie, heavy merging
        0 => {
            let k = 15 + rng.below(45);
            let small: Vec<String> = (0..2 + rng.below(5)).map(|_| rng.pick(al).clone()).collect();
            (0..k).map(|_| (0..1 + rng.below(6)).map(|_| rng.pick(&small).clone()).collect()).collect()
        }
        // a few long test cases sharing a long prefix / suffix / infix
        1 => {
            let shared = word(rng, 20, 40);
            let mode = rng.below(3);
            (0..2 + rng.below(4))
                .map(|_| {
                    let own = word(rng, 5, 30);
                    match mode {
                        0 => format!("{shared}{own}"),
                        1 => format!("{own}{shared}"),
                        _ => format!("{}{shared}{own}", word(rng, 3, 1)),
                    }
                })
                .collect()
        }
        // many test cases over many distinct symbols
        2 => {
            let base = 0x3b1u32 + 0x100 * rng.below(4) as u32;
            let sym: Vec<String> = (0..30 + rng.below(60)).filter_map(|k| char::from_u32(base + k as u32)).map(|c| c.to_string()).collect();
            (0..20 + rng.below(30)).map(|_| (0..2 + rng.below(8)).map(|_| rng.pick(&sym).clone()).collect()).collect()
        }
        // long runs and long periodic parts
        3 => {
            let u = word(rng, 1, 3);
            let v = word(rng, 1, 2);
            (0..2 + rng.below(5)).map(|_| format!("{}{}{}", u.repeat(8 + rng.below(40)), v, u.repeat(rng.below(12)))).collect()
        }
        // a long prefix chain
        4 => {
            let w: Vec<String> = (0..20 + rng.below(40)).map(|_| rng.pick(al).clone()).collect();
            (1..=w.len()).filter(|_| rng.chance(2, 3)).map(|i| w[..i].concat()).collect::<Vec<_>>()
        }
        // one specific difference deep inside long, otherwise equal test cases
        _ => {
            let w: Vec<String> = (0..30 + rng.below(50)).map(|_| rng.pick(al).clone()).collect();
            (0..2 + rng.below(4))
                .map(|_| {
                    let mut x = w.clone();
                    let i = rng.below(x.len());
                    x[i] = rng.pick(al).clone();
                    if rng.chance(1, 3) {
                        x.truncate(i + 1 + rng.below(w.len() - i));
                    }
                    x.concat()
                })
                .collect()
        }
    }
}

/// Families rich in repeats: unary, periodic, nested periods sharing prefixes (for C05/C13).
pub fn repeat_family(rng: &mut Rng, al: &[String]) -> Vec<String> {
    let n = 1 + rng.below(5);
    let a = rng.pick(al).clone();
    let b = rng.pick(al).clone();
    let c = rng.pick(al).clone();
    let mut tcs = vec![];
    let shape = rng.below(6);
    for _ in 0..n {
        let s = match shape {
            0 => format!("{}{}", a.repeat(1 + rng.below(6)), if rng.chance(1, 2) { b.clone() } else { c.clone() }),
            1 => format!("{}{}{}", a.repeat(rng.below(5)), b.repeat(rng.below(5)), a.repeat(rng.below(4))),
            2 => {
                let unit = format!("{a}{b}");
                format!("{}{}", unit.repeat(1 + rng.below(5)), c.repeat(rng.below(3)))
            }
            3 => {
                let inner = format!("{}{}", a.repeat(1 + rng.below(3)), b);
                format!("{}{}", inner.repeat(1 + rng.below(4)), c.repeat(rng.below(3)))
            }
            4 => {
                // three levels: ((a^i b)^j c)^k
                let inner = format!("{}{}", a.repeat(2 + rng.below(2)), b);
                let mid = format!("{}{}", inner.repeat(2 + rng.below(2)), c);
                if rng.chance(3, 4) {
                    mid.repeat(2 + rng.below(2))
                } else {
                    let d = 4 + rng.below(2);
                    nested_periods(rng, &[a.clone(), b.clone(), c.clone()], d)
                }
            }
            _ => {
                let mut s = String::new();
                for _ in 0..1 + rng.below(4) {
                    let g = rng.pick(&[a.clone(), b.clone(), c.clone()]).clone();
                    s.push_str(&g.repeat(1 + rng.below(5)));
                }
                s
            }
        };
        tcs.push(s);
    }
    tcs.retain(|t| !t.is_empty());
    if tcs.is_empty() {
        tcs.push(a.repeat(3));
    }
    tcs
}

pub const THRESHOLDS: [u32; 8] = [1, 2, 3, 4, 5, 6, 100, u32::MAX];

pub fn thresholds(rng: &mut Rng) -> (u32, u32) {
    let t = |rng: &mut Rng| if rng.chance(3, 4) { 1 + rng.below(4) as u32 } else { *rng.pick(&THRESHOLDS) };
    (t(rng), t(rng))
}

/// A random point of the lattice restricted to `allowed`, with thresholds when REP is set.
pub fn settings(rng: &mut Rng, allowed: u32) -> Settings {
    // bias towards few flags so that single-flag behaviour is common
    let mut f = (rng.next() as u32) & allowed;
    if rng.chance(1, 2) {
        f &= rng.next() as u32;
    }
    let (mr, ml) = if f & REP != 0 { thresholds(rng) } else { (1, 1) };
    Settings::with(f, mr, ml).normalised()
}

/// Is the case "non-trivial" for the language properties?
/// >=2 distinct test cases sharing a prefix or suffix, or the empty string present, or a
/// grapheme of >=2 code points, or a metacharacter, or a repeated substring.
pub fn nontrivial(tcs: &[String]) -> bool {
    let mut d: Vec<&String> = tcs.iter().collect();
    d.sort();
    d.dedup();
    if d.iter().any(|t| t.is_empty()) && d.len() >= 2 {
        return true;
    }
    for i in 0..d.len() {
        for j in i + 1..d.len() {
            let (a, b) = (d[i], d[j]);
            if a.chars().next() == b.chars().next() && a.chars().next().is_some() {
                return true;
            }
            if a.chars().last() == b.chars().last() && a.chars().last().is_some() {
                return true;
            }
        }
    }
    const META: &str = "\\.()[]{}+*-?|^$# \t\n";
    for t in &d {
        if t.chars().any(|c| META.contains(c) || !c.is_ascii()) {
            return true;
        }
        let cs: Vec<char> = t.chars().collect();
        if cs.windows(2).any(|w| w[0] == w[1]) {
            return true;
        }
    }
    false
}

pub fn hash_case(tcs: &[String], s: Settings) -> u64 {
    use std::hash::{Hash, Hasher};
    let mut d: Vec<&String> = tcs.iter().collect();
    d.sort();
    d.dedup();
    let mut h = std::collections::hash_map::DefaultHasher::new();
    d.hash(&mut h);
    s.hash(&mut h);
    h.finish()
}

/// Square-free word over {0,1,2} (the numbers of ones between consecutive zeros of the Thue-Morse word): no
/// block is immediately repeated, so repetition conversion finds nothing to convert in it.
pub fn square_free(n: usize, skip: usize) -> Vec<u8> {
    let mut v = vec![];
    let (mut k, mut count, mut started) = (0usize, 0u8, false);
    while v.len() < n + skip {
        if k.count_ones() % 2 == 0 {
            if started {
                v.push(count);
            }
            started = true;
            count = 0;
        } else {
            count += 1;
        }
        k += 1;
    }
    v.split_off(skip)
}

/// The junction kinds of `boundary_case`: (name, left part, right part, filler symbols).
pub const JUNCTIONS: [(&str, &str, &str, [&str; 3]); 9] = [
    ("equal_pair", "z", "z", ["a", "b", "c"]),
    ("equal_pair_of_two", "zy", "zy", ["a", "b", "c"]),
    ("literal_class_text_then_digits", "\\d\\d\\d", "777", ["a", "b", "c"]),
    ("literal_class_text_then_letters", "\\w\\w\\w", "qqq", ["-", "+", "="]),
    ("literal_class_text_then_blanks", "\\s\\s", "  ", ["a", "b", "c"]),
    ("run_across", "qqqqq", "qqqq", ["a", "b", "c"]),
    ("period_across", "xyxyx", "yxyxy", ["a", "b", "c"]),
    ("digits_then_digits", "1212", "1212", ["a", "b", "c"]),
    ("cluster_pair", "e\u{301}", "e\u{301}", ["a", "b", "c"]),
];

/// One long test case without any immediate repetition (boundaries above 600: with a plain two-symbol period)
/// except at a junction `left|right` whose right part starts at grapheme index `boundary + delta` (windowed / chunked / cached processing that ends there would show).
/// The parts must consist of one-code-point graphemes (or be counted by the caller).
pub fn boundary_case(junction: usize, boundary: usize, delta: isize, tail: usize) -> String {
    let (_, left, right, fill) = JUNCTIONS[junction % JUNCTIONS.len()];
    let left_len = if left.contains('\u{301}') { 1 } else { left.chars().count() };
    let p = (boundary as isize + delta).max(left_len as isize + 1) as usize;
    let mut s = String::new();
    if boundary > 600 {
        // the repetition search of grex needs gigabytes for 1000 graphemes without any period (it keeps every
        // distinct substring); a periodic filler keeps the long cases cheap
        for k in 0..p - left_len {
            s.push_str(fill[(k + (p - left_len)) % 2]);
        }
    } else {
        for x in square_free(p - left_len, 0) {
            s.push_str(fill[x as usize]);
        }
    }
    s.push_str(left);
    s.push_str(right);
    for x in square_free(tail, 7) {
        s.push_str(fill[x as usize]);
    }
    s
}

/// A state with very many outgoing edges (`fanout` one-code-point test cases behind a common prefix) next to
/// multi-code-point graphemes, their lone first code points and longer test cases that start with either
/// (per-state edge indexes / tables that switch representation above some fan-out would show here).
pub fn wide_fanout_family(rng: &mut Rng, fanout: usize) -> Vec<String> {
    let mut pool: Vec<char> = (0x21u32..0x7f).filter_map(char::from_u32).collect();
    pool.extend((0xc0u32..0x180).filter_map(char::from_u32));
    pool.extend((0x391u32..0x3ca).filter_map(char::from_u32).filter(|c| c.is_alphabetic()));
    pool.extend((0x4e00u32..0x4e80).filter_map(char::from_u32));
    rng.shuffle(&mut pool);
    let prefix = *rng.pick(&["", "", "x", "ab", "\u{1f44d}"]);
    let mut v: Vec<String> = pool.iter().take(fanout).map(|c| format!("{prefix}{c}")).collect();
    let clusters = ["\u{1f44d}\u{1f3fd}", "\u{1f1e9}\u{1f1ea}", "\u{1100}\u{1161}\u{11a8}", "e\u{301}", "\u{d4e}a", "\u{1f469}\u{200d}\u{1f4bb}", "a\u{1f3fb}", "\r\n", "1\u{fe0f}\u{20e3}"];
    let k = 1 + rng.below(3);
    for _ in 0..k {
        let c = *rng.pick(&clusters);
        let first: String = c.chars().take(1).collect();
        let suffix: String = (0..1 + rng.below(5)).map(|_| *rng.pick(&["a", "b", "c", "d", "e"])).collect();
        v.push(format!("{prefix}{c}"));
        if rng.chance(3, 4) {
            v.push(format!("{prefix}{first}"));
        }
        if rng.chance(3, 4) {
            v.push(format!("{prefix}{first}{suffix}"));
        }
        if rng.chance(1, 2) {
            v.push(format!("{prefix}{c}{suffix}x"));
        }
    }
    rng.shuffle(&mut v);
    v
}
