//! C03 — shorthand-class options generalise exactly as documented.
use crate::cfg::*;
use crate::e2e::{expect_equal, Ctx, Outcome};
use crate::gen::{self, Rng};
use crate::report::*;
use crate::spec;
use serde_json::json;

pub const MODIFIERS: u32 = CI | ESC | VERB | CAP | REP | NOSTART | NOEND;

pub fn check_case(ctx: &Ctx, st: &mut Stats, tcs: &[String], s: Settings) {
    st.evaluations += 1;
    let (res, ev) = build_ev(tcs, s);
    let out = match res {
        Ok(o) => o,
        Err(p) => {
            st.violation("panic", format!("build() panicked: {p}"), case_json(tcs, s));
            return;
        }
    };
    let sp = spec::spec(&ctx.classes, tcs, s);
    let o = expect_equal(ctx, st, "language_differs_from_class_generalisation", &wrap_full(&out, s), &sp, tcs, s, &out, &ev, json!(null), None);
    if o != Outcome::Inconclusive {
        st.decided += 1;
        // non-trivial: at least one code point converted and (>=2 test cases or an unconverted code point)
        let converted = tcs.iter().flat_map(|t| t.chars()).filter(|c| ctx.classes.token(*c, s.flags).is_some()).count();
        let literal = tcs.iter().flat_map(|t| t.chars()).filter(|c| ctx.classes.token(*c, s.flags).is_none()).count();
        if converted > 0 && (literal > 0 || tcs.len() >= 2) {
            st.distinct.insert(gen::hash_case(tcs, s));
        }
        st.count(&format!("class_subset_{:02}", s.flags & CLASS_MASK));
    }
    if o == Outcome::Held {
        st.count("held");
        st.sample(json!({"test_cases": tcs, "settings": s.names(), "output": out, "spec": sp, "verdict": "languages equal"}));
    }
}

pub fn replay(ctx: &Ctx, case: &serde_json::Value) {
    let (tcs, s) = case_from_json(case);
    let mut st = Stats::new();
    check_case(ctx, &mut st, &tcs, s);
    ctx.run.merge(st);
}

fn fixed_inputs() -> Vec<Vec<String>> {
    let v: Vec<Vec<&str>> = vec![
        vec!["a1 b2", "a1 c", "x-9"],
        vec!["I ♥♥♥ 36 and ٣ and 💩💩."],
        vec!["1", "a", " ", "-", "_"],
        vec!["12", "1a", "a1", "aa", "1 ", " 1"],
        vec!["ab12", "ab34", "cd12"],
        vec!["٣٣", "٣a", "²", "Ⅷ"],
        vec!["\u{a0}x", "\u{2003}x", "\tx", "x"],
        vec!["e\u{301}1", "e1", "👩\u{200d}💻 1"],
        vec!["", "1", "a "],
        vec!["a.b", "a-b", "a_b", "a b"],
        vec!["aaa1", "aa1", "a1"],
        vec!["Z9", "z9", "É9"],
        vec!["中1", "中中", "９9"],
        vec!["1.5", "2.75", "10"],
        vec!["\n", "\r\n", " \n"],
    ];
    v.into_iter().map(|t| t.into_iter().map(String::from).collect()).collect()
}

pub fn run(ctx: &Ctx) -> i32 {
    let seed = ctx.seed();
    // all 64 subsets x fixed inputs x a few modifiers
    let inputs = fixed_inputs();
    let mods: Vec<u32> = if ctx.thorough { vec![0, CI, ESC, VERB, CAP, REP, CI | VERB | CAP, ESC | REP, NOSTART | NOEND, VERB | ESC | CI | REP] } else { vec![0, CI, VERB | CAP, REP] };
    let total = 64 * inputs.len() * mods.len();
    par_for(&ctx.run, total, |i, st| {
        let cls = (i % 64) as u32;
        let inp = &inputs[(i / 64) % inputs.len()];
        let m = mods[i / (64 * inputs.len())];
        if cls == 0 {
            return;
        }
        st.count("fixed_inputs_all_subsets");
        check_case(ctx, st, inp, Settings::new(cls | m));
    });
    // exhaustive small sets over a class-diverse alphabet: 1, a, ' ', '-', '_' (digit, word, space, none, word-non-alnum)
    let words = gen::words(&["1", "a", " ", "-"], 2);
    let subs = gen::subsets(words.len(), if ctx.thorough { 3 } else { 2 });
    let cls_list: Vec<u32> = if ctx.thorough { (1..64).collect() } else { vec![DIGIT, WORD, SPACE, NDIGIT, NWORD, NSPACE, DIGIT | WORD, DIGIT | NWORD, SPACE | NDIGIT, WORD | NSPACE, NDIGIT | NWORD | NSPACE, 63] };
    par_for(&ctx.run, subs.len() * cls_list.len(), |i, st| {
        let tcs = gen::pick_subset(&words, subs[i % subs.len()]);
        st.count("exhaustive_class_alphabet");
        check_case(ctx, st, &tcs, Settings::new(cls_list[i / subs.len()]));
    });
    // repeated multi-code-point graphemes of which only one code point is converted
    let det = gen::cluster_repeat_cases();
    let det_settings = [REP | DIGIT, REP | WORD, REP | NWORD, REP | NDIGIT, REP | SPACE | NSPACE, DIGIT | NWORD, REP | DIGIT | ESC, REP | WORD | VERB];
    par_for(&ctx.run, det.len() * det_settings.len(), |i, st| {
        st.count("cluster_repeat_cases");
        check_case(ctx, st, &det[i % det.len()], Settings::new(det_settings[i / det.len()]));
    });
    // literal text resembling class tokens next to members of that class
    {
        let look = gen::token_lookalike_cases();
        let extra = [0, REP, REP | ESC, REP | VERB, REP | CAP, CI];
        par_for(&ctx.run, look.len() * extra.len(), |i, st| {
            let (tcs, f) = &look[i % look.len()];
            st.count("token_lookalike_cases");
            check_case(ctx, st, tcs, Settings::new(f | extra[i / look.len()]));
        });
    }
    // >= 32 test cases with literal text resembling the class token; long test cases over many symbols
    {
        let many = gen::many_lookalike_cases();
        let extra = [0, REP, CAP, ESC];
        par_for(&ctx.run, many.len() * extra.len(), |i, st| {
            let (tcs, f) = &many[i % many.len()];
            st.count("many_lookalike_cases");
            check_case(ctx, st, tcs, Settings::new(f | extra[i / many.len()]));
        });
        let n = if ctx.thorough { 3000 } else { 160 };
        let flags = [DIGIT, WORD, SPACE, NDIGIT, NWORD, NSPACE, DIGIT | NWORD, WORD | SPACE, DIGIT | WORD | SPACE, 63, CI | DIGIT, CAP | SPACE];
        par_for(&ctx.run, n, |i, st| {
            let mut rng = Rng::new(seed, 0x31_0000 + i as u64);
            let tcs = gen::wide_case(&mut rng);
            st.count("wide_cases_many_symbols");
            check_case(ctx, st, &tcs, Settings::new(flags[i % flags.len()]));
        });
    }
    // hundreds to thousands of short test cases with a class option (chunked / parallel conversion would show here)
    {
        let sizes = [511usize, 512, 513, 521, 777, 1024, 1031, 2049];
        let letters: Vec<String> = "abcdefghij0123 -".chars().map(|c| c.to_string()).collect();
        par_for(&ctx.run, sizes.len() * 3, |i, st| {
            let mut rng = Rng::new(seed, 0x32_0000 + i as u64);
            let k = sizes[i % sizes.len()];
            let mut tcs: Vec<String> = (0..k).map(|_| (0..1 + rng.below(3)).map(|_| rng.pick(&letters).clone()).collect()).collect();
            tcs.push("zzzzzzz".to_string());
            tcs.push("12345678".to_string());
            let cls = [WORD, DIGIT | NSPACE, WORD | SPACE | NDIGIT][i / sizes.len()];
            st.count("hundreds_of_test_cases");
            check_case(ctx, st, &tcs, Settings::new(cls));
        });
    }
    // random
    let n = if ctx.thorough { 150_000 } else { 5_000 };
    let names = ["classes", "ws", "case", "graph", "mixed", "astral", "meta", "clusters", "tokens"];
    let alphabets: Vec<(String, Vec<String>)> = names.iter().map(|a| (a.to_string(), gen::alphabet(a))).collect();
    par_for(&ctx.run, n, |i, st| {
        let mut rng = Rng::new(seed, 0x30_0000 + i as u64);
        let (name, al) = &alphabets[i % alphabets.len()];
        let tcs = gen::family(&mut rng, al);
        // keep test cases short: class-heavy comparisons are expensive
        let tcs: Vec<String> = tcs.into_iter().map(|t| t.chars().take(8).collect()).take(4).collect();
        let mut cls = (rng.next() as u32) & CLASS_MASK;
        if cls == 0 {
            cls = 1 << rng.below(6);
        }
        let mut s = gen::settings(&mut rng, MODIFIERS);
        s.flags |= cls;
        st.count(&format!("random_{name}"));
        check_case(ctx, st, &tcs, s);
    });
    ctx.run.finish(
        "cases = all 63 non-empty subsets of the six class options x 15 fixed class-diverse inputs x modifier settings; small exhaustive sets over {1,a,' ',-}^<=2 x class subsets; structured random families over class/blank/case/grapheme alphabets x random class subset x random modifiers (case-insensitive, escape, verbose, capture, repetition, anchors); non-trivial = at least one code point converted and (an unconverted code point or >=2 test cases); distinct by (set of test cases, settings)",
        "per execution DFA equivalence of the output with the alternation of per-code-point class sequences built from the original test cases with the documented precedence, class membership taken from the regex crate's own \\d \\w \\s; witnesses re-validated with regex::Regex",
        &["regex-syntax's Unicode classes are the definition of \\d \\w \\s", "oracle size limits give inconclusive, not a verdict"],
        json!({}),
        false,
    )
}
