//! E4 — interpretation of the pipeline event log recorded by the `grex_verif` hook:
//! stage languages derived from the recorded snapshots (not from a re-implementation of grex),
//! plus the executable models of the two known defects used only for classification.
use crate::spec::{alternation_of, lit};
use grex::verif::{Event, G};
use std::collections::{BTreeMap, HashMap, HashSet};

#[derive(Clone, Debug)]
pub struct Snapshot {
    pub start: usize,
    pub finals: Vec<usize>,
    pub nodes: Vec<usize>,
    pub edges: Vec<(usize, usize, G)>,
}

#[derive(Clone, Debug, Default)]
pub struct Trace {
    pub sorted: Option<Vec<String>>,
    pub clusters: Option<Vec<Vec<G>>>,
    pub trie: Option<Snapshot>,
    pub min: Option<Snapshot>,
    pub expr: Option<String>,
    pub final_expr: Option<String>,
    pub branches: Vec<&'static str>,
    /// snapshots of the un-minimised automaton rebuilt by the self-check fallback
    pub extra_tries: usize,
}

pub fn trace(ev: &[Event]) -> Trace {
    let mut t = Trace::default();
    for e in ev {
        match e {
            Event::Sorted(s) => {
                t.sorted.get_or_insert_with(|| s.clone());
            }
            Event::Clusters(c) => {
                t.clusters.get_or_insert_with(|| c.clone());
            }
            Event::Dfa { minimized, start, finals, nodes, edges } => {
                let snap = Snapshot { start: *start, finals: finals.clone(), nodes: nodes.clone(), edges: edges.clone() };
                if *minimized {
                    t.min.get_or_insert(snap);
                } else if t.trie.is_none() {
                    t.trie = Some(snap);
                } else {
                    t.extra_tries += 1;
                }
            }
            Event::Expr(x) => {
                t.expr.get_or_insert_with(|| x.clone());
            }
            Event::FinalExpr(x) => {
                t.final_expr = Some(x.clone());
            }
            Event::Branch(b) => t.branches.push(b),
        }
    }
    t
}

/// One element string of a grapheme: the six class tokens stay classes, everything else literal.
fn elem(s: &str) -> String {
    let cs: Vec<char> = s.chars().collect();
    let mut o = String::new();
    let mut i = 0;
    while i < cs.len() {
        if cs[i] == '\\' && i + 1 < cs.len() && "dDsSwW".contains(cs[i + 1]) {
            o.push('\\');
            o.push(cs[i + 1]);
            i += 2;
        } else {
            o.push_str(&lit(cs[i]));
            i += 1;
        }
    }
    o
}

/// `(?:value){min,max}` with the flat value (chars joined).
pub fn gpat(g: &G) -> String {
    let v: String = g.chars.iter().map(|c| elem(c)).collect();
    quant(v, g.min, g.max)
}

/// Same, but using the nested `repetitions` rendering grex prints instead of the flat value.
pub fn gpat_nested(g: &G) -> String {
    let v: String = if g.repetitions.is_empty() { g.chars.iter().map(|c| elem(c)).collect() } else { g.repetitions.iter().map(gpat_nested).collect() };
    quant(v, g.min, g.max)
}

fn quant(v: String, min: u32, max: u32) -> String {
    if min == 1 && max == 1 {
        format!("(?:{v})")
    } else {
        format!("(?:{v}){{{min},{max}}}")
    }
}

pub fn cluster_pat(c: &[G], nested: bool) -> String {
    if c.is_empty() {
        "(?:)".to_string()
    } else {
        c.iter().map(|g| if nested { gpat_nested(g) } else { gpat(g) }).collect()
    }
}

pub fn clusters_pattern(cs: &[Vec<G>], nested: bool) -> String {
    alternation_of(&cs.iter().map(|c| cluster_pat(c, nested)).collect::<Vec<_>>())
}

/// All start -> accepting paths of an acyclic snapshot, as an anchored alternation.
/// `None` when the graph has a cycle or more than `cap` paths (=> inconclusive).
pub fn snapshot_pattern(s: &Snapshot, cap: usize) -> Option<String> {
    let mut adj: BTreeMap<usize, Vec<(usize, &G)>> = BTreeMap::new();
    for (a, b, g) in &s.edges {
        adj.entry(*a).or_default().push((*b, g));
    }
    let finals: HashSet<usize> = s.finals.iter().copied().collect();
    let mut out = vec![];
    let mut stack = vec![(s.start, String::new(), 0usize)];
    let limit = s.nodes.len() + 2;
    while let Some((n, p, depth)) = stack.pop() {
        if depth > limit {
            return None;
        }
        if finals.contains(&n) {
            out.push(if p.is_empty() { "(?:)".to_string() } else { p.clone() });
            if out.len() > cap {
                return None;
            }
        }
        if let Some(v) = adj.get(&n) {
            for (t, g) in v {
                stack.push((*t, format!("{p}{}", gpat(g)), depth + 1));
            }
        }
    }
    Some(alternation_of(&out))
}

/// Executable model of known defect D3 (`Dfa::find_next_state`): while inserting a cluster, an
/// element `v{n}` re-uses the first sibling edge (most recently added first) labelled `v{m,M}`
/// with `M == n` and folds into one with `M == n-1`, widening it to `{min(m,n), n}`.
/// Returns the pattern of the language of the resulting trie.
pub fn d3_model_pattern(clusters: &[Vec<G>], cap: usize) -> Option<String> {
    struct Node {
        // children in insertion order; searched most recent first like petgraph's adjacency list
        children: Vec<(String, Vec<String>, u32, u32, usize)>,
        is_final: bool,
    }
    let mut nodes = vec![Node { children: vec![], is_final: false }];
    for c in clusters {
        let mut cur = 0usize;
        for g in c {
            let value = g.chars.join("");
            let mut found = None;
            let n_children = nodes[cur].children.len();
            for k in (0..n_children).rev() {
                let (_, ref ch, emin, emax, tgt) = nodes[cur].children[k];
                // identity of an element is its list of characters/tokens, not the joined text:
                // ["\\", "d"] (backslash, d) and ["\\d"] (the digit class) are different elements
                if *ch != g.chars {
                    continue;
                }
                if emax == g.max.wrapping_sub(1) {
                    let nmin = emin.min(g.min);
                    let nmax = emax.max(g.max);
                    nodes[cur].children[k].2 = nmin;
                    nodes[cur].children[k].3 = nmax;
                    found = Some(tgt);
                    break;
                } else if emax == g.max {
                    found = Some(tgt);
                    break;
                }
            }
            cur = match found {
                Some(t) => t,
                None => {
                    nodes.push(Node { children: vec![], is_final: false });
                    let id = nodes.len() - 1;
                    nodes[cur].children.push((value, g.chars.clone(), g.min, g.max, id));
                    id
                }
            };
        }
        nodes[cur].is_final = true;
    }
    let mut out = vec![];
    let mut stack = vec![(0usize, String::new())];
    while let Some((n, p)) = stack.pop() {
        if nodes[n].is_final {
            out.push(if p.is_empty() { "(?:)".to_string() } else { p.clone() });
            if out.len() > cap {
                return None;
            }
        }
        for (_, chars, min, max, t) in &nodes[n].children {
            let g = G { chars: chars.clone(), min: *min, max: *max, repetitions: vec![] };
            stack.push((*t, format!("{p}{}", gpat(&g))));
        }
    }
    Some(alternation_of(&out))
}

/// Hook-level signature of known defect D1 (`Dfa::recreate_graph`): the trie's start state is
/// accepting (the empty test case was inserted) but the minimised automaton's start state is not.
pub fn d1_signature(t: &Trace) -> bool {
    match (&t.trie, &t.min) {
        (Some(tr), Some(mi)) => tr.finals.contains(&tr.start) && !mi.finals.contains(&mi.start),
        _ => false,
    }
}

#[derive(Debug, Default)]
pub struct Structure {
    pub nondeterministic: Vec<String>,
    pub unreachable: usize,
    pub dead: usize,
    pub equivalent_pairs: usize,
    pub states: usize,
}

/// Structural checks of a snapshot whose every edge is one symbol (repetition off):
/// determinism, reachability, co-reachability, and no two states with the same right language.
pub fn structure(s: &Snapshot) -> Option<Structure> {
    let mut adj: BTreeMap<usize, Vec<(String, usize)>> = BTreeMap::new();
    let mut radj: BTreeMap<usize, Vec<usize>> = BTreeMap::new();
    for (a, b, g) in &s.edges {
        let label = format!("{}{{{},{}}}", g.chars.join(""), g.min, g.max);
        adj.entry(*a).or_default().push((label, *b));
        radj.entry(*b).or_default().push(*a);
    }
    let mut st = Structure { states: s.nodes.len(), ..Default::default() };
    for (n, es) in &adj {
        let mut seen = HashSet::new();
        for (l, _) in es {
            if !seen.insert(l.clone()) {
                st.nondeterministic.push(format!("state {n} has two edges labelled {l}"));
            }
        }
    }
    // reachable
    let mut reach = HashSet::new();
    let mut stack = vec![s.start];
    while let Some(n) = stack.pop() {
        if reach.insert(n) {
            if let Some(es) = adj.get(&n) {
                for (_, t) in es {
                    stack.push(*t);
                }
            }
        }
    }
    st.unreachable = s.nodes.iter().filter(|n| !reach.contains(n)).count();
    // co-reachable
    let mut co = HashSet::new();
    let mut stack: Vec<usize> = s.finals.clone();
    while let Some(n) = stack.pop() {
        if co.insert(n) {
            if let Some(ps) = radj.get(&n) {
                for p in ps {
                    stack.push(*p);
                }
            }
        }
    }
    st.dead = s.nodes.iter().filter(|n| !co.contains(n)).count();
    // right-language signatures bottom-up (acyclic); None on a cycle
    let finals: HashSet<usize> = s.finals.iter().copied().collect();
    let mut sig: HashMap<usize, u64> = HashMap::new();
    let mut canon: HashMap<(bool, Vec<(String, u64)>), u64> = HashMap::new();
    fn go(
        n: usize,
        adj: &BTreeMap<usize, Vec<(String, usize)>>,
        finals: &HashSet<usize>,
        sig: &mut HashMap<usize, u64>,
        canon: &mut HashMap<(bool, Vec<(String, u64)>), u64>,
        onstack: &mut HashSet<usize>,
    ) -> Option<u64> {
        if let Some(s) = sig.get(&n) {
            return Some(*s);
        }
        if !onstack.insert(n) {
            return None;
        }
        let mut key = vec![];
        if let Some(es) = adj.get(&n) {
            for (l, t) in es {
                key.push((l.clone(), go(*t, adj, finals, sig, canon, onstack)?));
            }
        }
        key.sort();
        key.dedup();
        onstack.remove(&n);
        let next = canon.len() as u64;
        let id = *canon.entry((finals.contains(&n), key)).or_insert(next);
        sig.insert(n, id);
        Some(id)
    }
    let mut onstack = HashSet::new();
    for n in &s.nodes {
        go(*n, &adj, &finals, &mut sig, &mut canon, &mut onstack)?;
    }
    let mut by_sig: HashMap<u64, usize> = HashMap::new();
    for n in &s.nodes {
        if reach.contains(n) {
            *by_sig.entry(sig[n]).or_insert(0) += 1;
        }
    }
    st.equivalent_pairs = by_sig.values().filter(|&&c| c > 1).map(|c| c - 1).sum();
    Some(st)
}
