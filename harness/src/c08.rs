//! C08 — anchors: only requested anchors are emitted, disabling them does not change the body's
//! language, and searching a test case with an anchor-less pattern spans the whole test case.
use crate::cfg::*;
use crate::e2e::{expect_equal, Ctx, Outcome};
use crate::gen::{self, Rng};
use crate::oracle::real_regex;
use crate::report::*;
use crate::stages;
use regex_syntax::hir::{Hir, HirKind, Look};
use serde_json::json;

fn looks(h: &Hir, out: &mut Vec<Look>) {
    match h.kind() {
        HirKind::Look(l) => out.push(*l),
        HirKind::Concat(v) | HirKind::Alternation(v) => v.iter().for_each(|x| looks(x, out)),
        HirKind::Repetition(r) => looks(&r.sub, out),
        HirKind::Capture(c) => looks(&c.sub, out),
        _ => {}
    }
}

fn first_last(h: &Hir) -> (Option<Look>, Option<Look>) {
    fn as_look(h: &Hir) -> Option<Look> {
        if let HirKind::Look(l) = h.kind() {
            Some(*l)
        } else {
            None
        }
    }
    match h.kind() {
        HirKind::Look(l) => (Some(*l), Some(*l)),
        HirKind::Concat(v) => (v.first().and_then(as_look), v.last().and_then(as_look)),
        _ => (None, None),
    }
}

/// Anchor structure of the pattern, decided on the regex-syntax HIR.
fn anchor_structure(st: &mut Stats, tcs: &[String], s: Settings, out: &str) {
    let hir = match regex_syntax::ParserBuilder::new().nest_limit(5000).build().parse(out) {
        Ok(h) => h,
        Err(e) => {
            let mut case = case_json(tcs, s);
            case["output"] = json!(out);
            st.violation("invalid_pattern", e.to_string(), case);
            return;
        }
    };
    let mut all = vec![];
    looks(&hir, &mut all);
    let (first, last) = first_last(&hir);
    let want_start = !s.has(NOSTART);
    let want_end = !s.has(NOEND);
    let mut problems = vec![];
    // `^$` for T = {""} is a concat [Start, End]; a lone `^` or `$` is both first and last
    let has_start = first == Some(Look::Start) || (all.len() == 1 && all[0] == Look::Start && matches!(hir.kind(), HirKind::Look(_)));
    let has_end = last == Some(Look::End) || (all.len() == 1 && all[0] == Look::End && matches!(hir.kind(), HirKind::Look(_)));
    if has_start != want_start {
        problems.push(format!("start anchor {} but it was {}", if has_start { "present" } else { "absent" }, if want_start { "not disabled" } else { "disabled" }));
    }
    if has_end != want_end {
        problems.push(format!("end anchor {} but it was {}", if has_end { "present" } else { "absent" }, if want_end { "not disabled" } else { "disabled" }));
    }
    let expected = want_start as usize + want_end as usize;
    if all.len() != expected {
        problems.push(format!("{} assertions in the pattern, expected {}: {:?}", all.len(), expected, all));
    }
    st.count("anchor_structure_checks");
    if !problems.is_empty() {
        let mut case = case_json(tcs, s);
        case["output"] = json!(out);
        st.violation("wrong_anchors", problems.join("; "), case);
    }
}

pub fn check_case(ctx: &Ctx, st: &mut Stats, tcs: &[String], s: Settings) {
    st.evaluations += 1;
    let (res, ev) = build_ev(tcs, s);
    let out = match res {
        Ok(o) => o,
        Err(p) => {
            st.violation("panic", format!("build() panicked: {p}"), case_json(tcs, s));
            return;
        }
    };
    anchor_structure(st, tcs, s, &out);
    if !s.has(NOSTART) && !s.has(NOEND) {
        st.decided += 1;
        return;
    }
    // language of the body unchanged by disabling anchors
    let s_anch = s.without(NOSTART | NOEND);
    let (res_a, ev_a) = build_ev(tcs, s_anch);
    let Ok(out_a) = res_a else {
        st.violation("panic", "anchored build() panicked".into(), case_json(tcs, s_anch));
        return;
    };
    let o = expect_equal(
        ctx,
        st,
        "disabling_anchors_changes_language",
        &wrap_full(&out, s),
        &out_a,
        tcs,
        s,
        &out,
        &ev,
        json!({"anchored_output": out_a}),
        Some((s_anch, &out_a, &ev_a)),
    );
    // span monitor with the real engine
    match real_regex(&out) {
        Err(regex::Error::Syntax(e)) => {
            let mut case = case_json(tcs, s);
            case["output"] = json!(out);
            st.violation("invalid_pattern", e, case);
        }
        Err(e) => st.inconclusive(&format!("compile: {e}")),
        Ok(re) => {
            let t = stages::trace(&ev);
            for tc in tcs {
                st.count("span_searches");
                let m = re.find(tc);
                let ok = m.map(|m| m.start() == 0 && m.end() == tc.len()).unwrap_or(false);
                if !ok {
                    // arbitrate with the reference engine: the optimised search of regex 1.10.6 is
                    // itself wrong on some inputs (`\daa|a` on FULLWIDTH DIGIT ONE + "aa" gives 3..4)
                    match crate::oracle::reference_find(&out, tc) {
                        Some(Some((0, e))) if e == tc.len() => {
                            st.count("engine_disagrees_with_reference_search");
                            st.inconclusive("regex::Regex::find disagrees with the reference leftmost-first search (engine defect, not grex)");
                            continue;
                        }
                        None => {
                            st.inconclusive("reference search could not be built");
                            continue;
                        }
                        _ => {}
                    }
                    let mut case = case_json(tcs, s);
                    case["output"] = json!(out);
                    case["test_case"] = json!(tc);
                    case["found"] = json!(m.map(|m| m.as_str().to_string()));
                    let distinct = {
                        let mut d: Vec<&String> = tcs.iter().collect();
                        d.sort();
                        d.dedup();
                        d.len()
                    };
                    let is_d1 = tc.is_empty() && m.is_none() && distinct >= 2 && stages::d1_signature(&t) && t.branches.is_empty();
                    ctx.run.classify(
                        st,
                        if is_d1 { Some("KF-D1") } else { None },
                        "search_does_not_span_test_case",
                        format!("searching {:?} with {:?} finds {:?}", tc, out, m.map(|m| m.as_str().to_string())),
                        case,
                    );
                    break;
                }
            }
        }
    }
    if o != Outcome::Inconclusive {
        st.decided += 1;
        // non-trivial: some test case is a proper prefix of, or shares a first character with, another
        let mut d: Vec<&String> = tcs.iter().collect();
        d.sort();
        d.dedup();
        let related = d.iter().any(|a| d.iter().any(|b| a != b && (b.starts_with(a.as_str()) || (a.chars().next().is_some() && a.chars().next() == b.chars().next()))));
        if related {
            st.distinct.insert(gen::hash_case(tcs, s));
        }
        if o == Outcome::Held {
            st.sample(json!({"test_cases": tcs, "settings": s.names(), "output": out, "anchored_output": out_a, "verdict": "same body language; every test case found in full"}));
        }
    }
}

pub fn replay(ctx: &Ctx, case: &serde_json::Value) {
    let (tcs, s) = case_from_json(case);
    let mut st = Stats::new();
    check_case(ctx, &mut st, &tcs, s);
    ctx.run.merge(st);
}

pub const MODES: [u32; 4] = [0, NOSTART, NOEND, NOSTART | NOEND];
pub const OTHER: u32 = CLASS_MASK | REP | CI | ESC | VERB | CAP;

pub fn run(ctx: &Ctx) -> i32 {
    let seed = ctx.seed();
    let w_ab = gen::words(&["a", "b"], 3);
    let w_abc = gen::words(&["a", "b", "c"], 2);
    let max_set = if ctx.thorough { 15 } else { 4 };
    for (name, words) in [("ab3", &w_ab), ("abc2", &w_abc)] {
        let subs = gen::subsets(words.len(), max_set.min(words.len()));
        par_for(&ctx.run, subs.len() * 3, |i, st| {
            let tcs = gen::pick_subset(words, subs[i / 3]);
            st.count(&format!("exhaustive_{name}_sets_x_modes"));
            check_case(ctx, st, &tcs, Settings::new(MODES[1 + i % 3]));
        });
    }
    // grapheme / class / repetition variants of prefix-related test cases
    let variants: Vec<Vec<&str>> = vec![
        vec!["\u{1100}", "\u{1100}\u{1161}"],
        vec!["\u{1100}", "\u{1100}\u{1161}", "\u{1100}\u{1161}\u{11a8}"],
        vec!["🇩", "🇩🇪"],
        vec!["🇩🇪", "🇩🇪🇺"],
        vec!["e", "e\u{301}"],
        vec!["👩", "👩\u{200d}💻"],
        vec!["👍", "👍\u{1f3fb}"],
        vec!["\r", "\r\n"],
        vec!["\u{d4e}", "\u{d4e}a", "a"],
        vec!["a", "a1", "a12"],
        vec!["1", "12", "123", "1a"],
        vec!["aa", "aaaa", "aaaaaa", "a"],
        vec!["ab", "abab", "ababab", "abc"],
        vec!["x", "x y", "x y z"],
        vec!["A", "Ab", "aB", "abc"],
        vec!["a", "ab", "b", "ba"],
        vec!["aba", "a", "aabb", "bbba"],
        vec!["", "a", "ab"],
        vec![".", ".*", ".*?"],
        vec!["\\", "\\\\", "\\d"],
        vec!["\u{ff11}aa", "a"],
        vec!["\u{ff11}", "1a", "11"],
        vec!["\u{65e5}\u{672c}", "aaa"],
    ];
    let others: Vec<u32> = if ctx.thorough { vec![0, VERB, CI, ESC, CAP, REP, DIGIT, WORD, NWORD, NSPACE, VERB | CI, REP | WORD, DIGIT | NDIGIT, VERB | REP | CAP, 63] } else { vec![0, VERB, CI, REP, WORD, NWORD, VERB | CAP | REP, DIGIT | NDIGIT] };
    par_for(&ctx.run, variants.len() * others.len() * 4, |i, st| {
        let tcs: Vec<String> = variants[i % variants.len()].iter().map(|s| s.to_string()).collect();
        let o = others[(i / variants.len()) % others.len()];
        let m = MODES[i / (variants.len() * others.len())];
        st.count("grapheme_class_repetition_variants");
        check_case(ctx, st, &tcs, Settings::new(o | m));
    });
    if std::env::var("VERIF_TIMING").is_ok() { eprintln!("[timing] c08.rs block 1: {:.1}s", ctx.run.started.elapsed().as_secs_f64()); }
    // medium-sized inputs: many / long test cases, many distinct symbols, long repeats, deep prefix chains
    {
        let n = if ctx.thorough { 4000 } else { 300 };
        let names = ["ab", "abc", "mixed", "meta"];
        let als: Vec<Vec<String>> = names.iter().map(|a| gen::alphabet(a)).collect();
        par_for(&ctx.run, n, |i, st| {
            let mut rng = Rng::new(seed, 0x81_0000 + i as u64);
            let tcs = gen::medium_family(&mut rng, &als[i % als.len()]);
            let tcs: Vec<String> = tcs.into_iter().filter(|t| !t.is_empty()).collect();
            if tcs.is_empty() {
                return;
            }
            st.count("medium_sized_inputs");
            let s = Settings::new(MODES[1 + i % 3] | if i % 5 == 0 { REP } else { 0 });
            check_case(ctx, st, &tcs, s);
        });
    }
    // many test cases mixing word and non-word characters with class conversion and no end anchor: the
    // candidate expressions have tens to hundreds of class atoms (size limits of the self-check)
    {
        let al: Vec<String> = ["a", "b", "+", "-", "=", "1"].iter().map(|s| s.to_string()).collect();
        let n = if ctx.thorough { 6000 } else { 600 };
        par_for(&ctx.run, n, |i, st| {
            let mut rng = Rng::new(seed, 0x83_0000 + i as u64);
            let k = 12 + rng.below(30);
            let tcs: Vec<String> = (0..k).map(|_| (0..1 + rng.below(10)).map(|_| rng.pick(&al).clone()).collect()).collect();
            let cls = [WORD, WORD | DIGIT, NWORD, DIGIT | NDIGIT, WORD | NSPACE][i % 5];
            st.count("many_test_cases_class_noend");
            check_case(ctx, st, &tcs, Settings::new(cls | MODES[2 + i % 2]));
        });
    }
    // expressions near the size limit of the regex crate: several long runs of class atoms sharing a suffix next to
    // short test cases that shadow one another under overlapping classes (the minimised candidate of the
    // self-check compiles, the un-minimised one does not)
    {
        let n = if ctx.thorough { 96 } else { 10 };
        let shadows: [&[&str]; 5] = [&["a", "bb", "bb1", "1-"], &["x", "xy", "xy7", "7+"], &["a", "a1", "1-", "ab1"], &["b", "bb", "bb2", "2=", "22="], &["a", "bb", "bb1"]];
        par_for(&ctx.run, n, |i, st| {
            let mut rng = Rng::new(seed, 0x84_0000 + i as u64);
            let m = 60 + rng.below(90);
            let k = (230 + m - 1) / m + rng.below(2);
            let symbols = ["+", "=", "~", "%", "#", "@", "&"];
            let letters: String = (0..m).map(|_| *rng.pick(&["a", "b", "c", "d", "e", "f", "g", "h", "i", "j"])).collect();
            let mut tcs: Vec<String> = shadows[i % shadows.len()].iter().map(|x| x.to_string()).collect();
            for sy in symbols.iter().take(k.min(symbols.len())) {
                tcs.push(format!("{sy}{letters}"));
                if i % 4 != 3 {
                    tcs.push(format!("{sy}{letters}!"));
                }
            }
            let cls = [DIGIT | WORD, DIGIT | WORD, WORD, DIGIT | WORD | SPACE][i % 4];
            st.count("size_limit_shadow_cases");
            check_case(ctx, st, &tcs, Settings::new(cls | MODES[2 + i % 2]));
        });
    }
    // case-insensitive search: fold-equal but not identical letters (final sigma, long s, Kelvin, micro)
    {
        let al = gen::alphabet("sigma");
        let al_lower = gen::alphabet("sigma_lower");
        let n = if ctx.thorough { 200_000 } else { 16_000 };
        par_for(&ctx.run, n, |i, st| {
            let mut rng = Rng::new(seed, 0x82_0000 + i as u64);
            let tcs = gen::family(&mut rng, if i % 4 < 2 { &al_lower } else { &al });
            st.count("random_sigma_case_insensitive");
            let s = Settings::new(CI | MODES[1 + i % 3] | if i % 7 == 0 { REP } else { 0 } | if i % 5 == 0 { VERB } else { 0 } | if i % 11 == 0 { CAP } else { 0 });
            if i % 2 == 0 {
                // the case-sensitive build of the same test cases immediately before, on the same thread
                let _ = build(&tcs, s.without(CI));
            }
            check_case(ctx, st, &tcs, s);
        });
    }
    // random prefix-related families
    let n = if ctx.thorough { 150_000 } else { 10_000 };
    let names = ["ab", "abc", "graph", "meta", "case", "classes", "mixed", "ws", "astral", "clusters", "tokens"];
    let alphabets: Vec<(String, Vec<String>)> = names.iter().map(|a| (a.to_string(), gen::alphabet(a))).collect();
    par_for(&ctx.run, n, |i, st| {
        let mut rng = Rng::new(seed, 0x80_0000 + i as u64);
        let (name, al) = &alphabets[i % alphabets.len()];
        let tcs = gen::family(&mut rng, al);
        let mut s = if i % 2 == 0 { Settings::new(0) } else { gen::settings(&mut rng, OTHER) };
        let tcs: Vec<String> = if s.flags & CLASS_MASK != 0 { tcs.into_iter().map(|t| t.chars().take(8).collect()).take(4).collect() } else { tcs };
        s.flags |= MODES[rng.below(4)];
        st.count(&format!("random_{name}"));
        check_case(ctx, st, &tcs, s);
    });
    if std::env::var("VERIF_TIMING").is_ok() { eprintln!("[timing] c08.rs block 2: {:.1}s", ctx.run.started.elapsed().as_secs_f64()); }
    ctx.run.finish(
        "cases = all subsets (size<=4 quick, all thorough) of {a,b}^<=3 and {a,b,c}^<=2 incl. the empty string x {no start, no end, neither}; grapheme-cluster, class-converted and repetition variants of prefix-related test cases x 4 anchor modes x other settings; random structured families (prefix chains etc.) over 9 alphabets x random anchor mode x random other settings; non-trivial = some test case is a proper prefix of, or shares its first character with, another; distinct by (set of test cases, settings)",
        "per execution: anchor structure decided on the regex-syntax HIR (Look::Start first iff start anchor not disabled, Look::End last iff end anchor not disabled, no other assertions); DFA equivalence of ^(?:anchor-less output)$ with the anchored build; span monitor: regex::Regex::find(test case) on the real output must be Some(0..len) for every test case",
        &["leftmost-first search semantics are those of regex 1.10.6", "oracle size limits give inconclusive"],
        json!({}),
        false,
    )
}
