//! C06 — verbose mode, capturing groups and escaping are presentation only.
use crate::cfg::*;
use crate::e2e::{expect_equal, Ctx, Outcome};
use crate::gen::{self, Rng};
use crate::oracle::real_regex;
use crate::report::*;
use regex_syntax::ast::{Ast, Flag, FlagsItemKind, GroupKind};
use serde_json::json;

pub const PRESENTATION: [u32; 3] = [VERB, CAP, ESC];
pub const BASE_ALLOWED: u32 = CLASS_MASK | REP | CI | NOSTART | NOEND;

fn walk_groups(ast: &Ast, capturing: &mut usize, non_capturing: &mut usize) {
    match ast {
        Ast::Group(g) => {
            match g.kind {
                GroupKind::CaptureIndex(_) | GroupKind::CaptureName { .. } => *capturing += 1,
                GroupKind::NonCapturing(_) => *non_capturing += 1,
            }
            walk_groups(&g.ast, capturing, non_capturing);
        }
        Ast::Repetition(r) => walk_groups(&r.ast, capturing, non_capturing),
        Ast::Alternation(a) => a.asts.iter().for_each(|x| walk_groups(x, capturing, non_capturing)),
        Ast::Concat(c) => c.asts.iter().for_each(|x| walk_groups(x, capturing, non_capturing)),
        _ => {}
    }
}

/// Leading flags item: which of i / x does it switch on?
fn leading_flags(ast: &Ast) -> (bool, bool) {
    let first = match ast {
        Ast::Concat(c) => c.asts.first(),
        other => Some(other),
    };
    let (mut i, mut x) = (false, false);
    if let Some(Ast::Flags(f)) = first {
        let mut neg = false;
        for it in &f.flags.items {
            match it.kind {
                FlagsItemKind::Negation => neg = true,
                FlagsItemKind::Flag(Flag::CaseInsensitive) if !neg => i = true,
                FlagsItemKind::Flag(Flag::IgnoreWhitespace) if !neg => x = true,
                _ => {}
            }
        }
    }
    (i, x)
}

fn structure(st: &mut Stats, tcs: &[String], s: Settings, out: &str) {
    let ast = match regex_syntax::ast::parse::ParserBuilder::new().nest_limit(5000).build().parse(out) {
        Ok(a) => a,
        Err(e) => {
            let mut case = case_json(tcs, s);
            case["output"] = json!(out);
            st.violation("invalid_pattern", format!("{} (under its own flags)", e), case);
            return;
        }
    };
    let mut problems = vec![];
    let (_, x) = leading_flags(&ast);
    if s.has(VERB) != x {
        problems.push(format!("verbose {} but leading flags item {} x", if s.has(VERB) { "on" } else { "off" }, if x { "sets" } else { "does not set" }));
    }
    if s.has(VERB) && !(out.starts_with("(?x)") || out.starts_with("(?ix)")) {
        problems.push("verbose output does not start with (?x) / (?ix)".to_string());
    }
    let (mut cap, mut non) = (0, 0);
    walk_groups(&ast, &mut cap, &mut non);
    st.add("groups_observed", (cap + non) as u64);
    if s.has(CAP) && non > 0 {
        problems.push(format!("capturing groups requested but {non} group(s) are non-capturing"));
    }
    if !s.has(CAP) && cap > 0 {
        problems.push(format!("{cap} capturing group(s) although capturing groups were not requested"));
    }
    if s.has(ESC) && !out.is_ascii() {
        problems.push("escaping requested but the output contains non-ASCII characters".into());
    }
    if !problems.is_empty() {
        let mut case = case_json(tcs, s);
        case["output"] = json!(out);
        st.violation("presentation_structure", problems.join("; "), case);
    }
}

/// `base` must not contain VERB/CAP/ESC; all 7 non-empty subsets are compared with the base build.
pub fn check_case(ctx: &Ctx, st: &mut Stats, tcs: &[String], base: Settings) {
    let base = base.without(VERB | CAP | ESC | SURR | COLOR);
    let (r0, ev0) = build_ev(tcs, base);
    let out0 = match r0 {
        Ok(o) => o,
        Err(p) => {
            st.evaluations += 1;
            st.violation("panic", format!("build() panicked: {p}"), case_json(tcs, base));
            return;
        }
    };
    structure(st, tcs, base, &out0);
    for m in 1u32..8 {
        let add = (0..3).filter(|b| m & (1 << b) != 0).fold(0, |a, b| a | PRESENTATION[b]);
        let s = base.or(add);
        st.evaluations += 1;
        let (r, ev) = build_ev(tcs, s);
        let out = match r {
            Ok(o) => o,
            Err(p) => {
                st.violation("panic", format!("build() panicked: {p}"), case_json(tcs, s));
                continue;
            }
        };
        structure(st, tcs, s, &out);
        // must stay valid under its own flag with the real engine
        if let Err(regex::Error::Syntax(e)) = real_regex(&out) {
            let mut case = case_json(tcs, s);
            case["output"] = json!(out);
            st.violation("invalid_pattern", e, case);
            continue;
        }
        let o = expect_equal(
            ctx,
            st,
            "presentation_option_changes_language",
            &wrap_full(&out, s),
            &wrap_full(&out0, base),
            tcs,
            s,
            &out,
            &ev,
            json!({"added": Settings::new(add).names(), "output_without": out0}),
            Some((base, &out0, &ev0)),
        );
        if o != Outcome::Inconclusive {
            st.decided += 1;
            if out != out0 {
                st.distinct.insert(gen::hash_case(tcs, s));
            }
        }
        if o == Outcome::Held && out != out0 {
            st.sample(json!({"test_cases": tcs, "settings": s.names(), "output": out, "output_without": out0, "verdict": "languages equal"}));
        }
    }
}

pub fn replay(ctx: &Ctx, case: &serde_json::Value) {
    let (tcs, s) = case_from_json(case);
    let mut st = Stats::new();
    check_case(ctx, &mut st, &tcs, s);
    ctx.run.merge(st);
}

fn sweep(st: &mut Stats, c: char) {
    // every scalar as a one-character test case under verbose mode: must match exactly itself
    let tcs = vec![c.to_string()];
    let s = Settings::new(VERB);
    st.evaluations += 1;
    match build(&tcs, s) {
        Err(p) => st.violation("panic", format!("build() panicked: {p}"), case_json(&tcs, s)),
        Ok(out) => match real_regex(&out) {
            Err(e) => {
                let mut case = case_json(&tcs, s);
                case["output"] = json!(out);
                st.violation("invalid_pattern", e.to_string(), case);
            }
            Ok(re) => {
                st.decided += 1;
                st.count("verbose_scalar_sweep");
                if c.is_whitespace() || c == '#' {
                    st.distinct.insert(gen::hash_case(&tcs, s));
                }
                // exactly itself: matches c, does not match the empty string, a tab, a space or cc
                let bad = !re.is_match(&tcs[0]) || re.is_match("") || (c != '\t' && re.is_match("\t")) || (c != ' ' && re.is_match(" ")) || re.is_match(&format!("{c}{c}"));
                if bad {
                    let mut case = case_json(&tcs, s);
                    case["output"] = json!(out);
                    st.violation("verbose_changes_language", format!("verbose pattern {:?} for U+{:04X} does not match exactly that character", out, c as u32), case);
                }
            }
        },
    }
}

pub fn run(ctx: &Ctx) -> i32 {
    let seed = ctx.seed();
    // one-character sets over blanks and metacharacters (become classes / literals in verbose mode)
    let mut singles = gen::alphabet("ws");
    singles.extend(gen::alphabet("meta"));
    singles.sort();
    singles.dedup();
    let mut combos: Vec<Vec<String>> = vec![];
    for (i, a) in singles.iter().enumerate() {
        combos.push(vec![a.clone()]);
        combos.push(vec![format!("{a}{a}{a}")]);
        for b in &singles[i + 1..] {
            if ctx.thorough || (i + combos.len()) % 3 == 0 {
                combos.push(vec![a.clone(), b.clone()]);
                combos.push(vec![format!("{a}{b}"), format!("{b}{a}x")]);
            }
        }
    }
    par_for(&ctx.run, combos.len(), |i, st| {
        st.count("blank_and_meta_sets");
        check_case(ctx, st, &combos[i], Settings::new(if i % 4 == 0 { REP } else { 0 }));
    });
    let mut det = gen::blank_repeat_cases();
    det.extend(gen::cluster_repeat_cases());
    par_for(&ctx.run, det.len() * 2, |i, st| {
        st.count("blank_and_cluster_repeat_cases");
        check_case(ctx, st, &det[i % det.len()], Settings::new(if i < det.len() { REP } else { REP | NOSTART }));
    });
    // medium-sized inputs: many / long test cases, many distinct symbols, long repeats, deep prefix chains
    {
        let n = if ctx.thorough { 2500 } else { 150 };
        let names = ["ws", "meta", "mixed", "astral"];
        let als: Vec<Vec<String>> = names.iter().map(|a| gen::alphabet(a)).collect();
        par_for(&ctx.run, n, |i, st| {
            let mut rng = Rng::new(seed, 0x61_0000 + i as u64);
            let tcs = gen::medium_family(&mut rng, &als[i % als.len()]);
            let tcs: Vec<String> = tcs.into_iter().filter(|t| !t.is_empty()).collect();
            if tcs.is_empty() {
                return;
            }
            st.count("medium_sized_inputs");
            check_case(ctx, st, &tcs, Settings::new(if i % 3 == 0 { REP } else { 0 }));
        });
    }
    // classes over the code points around each UTF-8 / UTF-16 / plane boundary and the surrogate gap
    {
        let bcp = gen::boundary_code_points();
        let mut sets: Vec<Vec<String>> = vec![];
        for w in bcp.windows(7).step_by(2) {
            for a in 0..w.len() {
                for b in a + 1..w.len() {
                    for c in b + 1..w.len() {
                        sets.push(vec![w[a].to_string(), w[b].to_string(), w[c].to_string()]);
                    }
                }
            }
        }
        sets.sort();
        sets.dedup();
        par_for(&ctx.run, sets.len(), |i, st| {
            st.count("boundary_code_point_classes");
            check_case(ctx, st, &sets[i], Settings::new(0));
        });
    }
    let n = if ctx.thorough { 80_000 } else { 4_000 };
    let names = ["ws", "meta", "mixed", "graph", "astral", "ab", "case", "classes", "sgr", "clusters", "tokens"];
    let alphabets: Vec<(String, Vec<String>)> = names.iter().map(|a| (a.to_string(), gen::alphabet(a))).collect();
    par_for(&ctx.run, n, |i, st| {
        let mut rng = Rng::new(seed, 0x60_0000 + i as u64);
        let (name, al) = if i % 3 == 0 { &alphabets[i % 2] } else { &alphabets[i % alphabets.len()] };
        let tcs = gen::family(&mut rng, al);
        let base = match i % 3 {
            0 => Settings::new(0),
            _ => gen::settings(&mut rng, BASE_ALLOWED),
        };
        let tcs: Vec<String> = if base.flags & CLASS_MASK != 0 { tcs.into_iter().map(|t| t.chars().take(8).collect()).take(4).collect() } else { tcs };
        st.count(&format!("random_{name}"));
        check_case(ctx, st, &tcs, base);
    });
    // verbose sweep over all scalars (quick: all White_Space / Pattern_White_Space / controls + stride)
    let stride = if ctx.thorough { 1 } else { 23 };
    let offset = (seed % stride as u64) as u32;
    let scalars: Vec<char> = (0..=0x10FFFFu32).filter_map(char::from_u32).filter(|c| ctx.thorough || (*c as u32) % stride == offset || c.is_whitespace() || c.is_control() || (*c as u32) < 0x250 || ('\u{2000}'..'\u{2100}').contains(c)).collect();
    par_for(&ctx.run, scalars.len(), |i, st| sweep(st, scalars[i]));
    ctx.run.finish(
        "cases = sets of one- and multi-character strings over blanks (space # TAB LF VT FF CR NEL NBSP U+1680 U+2000-200A U+2028/9 U+202F U+205F U+3000 ZWSP BOM LRM RLM ...) and metacharacters, random families over 9 alphabets x base settings (classes, repetition, case-insensitive, anchors); for each base all 7 non-empty subsets of {verbose, capture, escape} are built and compared with the base build; verbose sweep with every blank/control scalar (all scalars in the thorough tier) as a one-character test case; non-trivial = the presentation option actually changed the output string; distinct by (set of test cases, settings)",
        "per execution: DFA equivalence of build(cfg + S) and build(cfg); the regex-syntax AST gives the leading flags item ((?x)/(?ix) iff verbose) and the kind of every group (all capturing with the option, none without); escaped output must be ASCII; every output must compile with regex::Regex under its own flags",
        &["regex-syntax defines which whitespace (?x) ignores"],
        json!({"verbose_scalar_sweep_exhaustive": ctx.thorough}),
        false,
    )
}
