//! C09 — digit/word/space classification agrees with the regex crate on every code point.
use crate::cfg::*;
use crate::e2e::Ctx;
use crate::report::*;
use serde_json::json;

fn check(ctx: &Ctx, st: &mut Stats, c: char, cls: u32, baseline: &str) {
    st.evaluations += 1;
    let tcs = [c.to_string()];
    let s = Settings::new(cls);
    let out = match build(&tcs, s) {
        Ok(o) => o,
        Err(p) => {
            st.violation("panic", format!("build() panicked: {p}"), case_json(&tcs, s));
            return;
        }
    };
    st.decided += 1;
    let expected = match ctx.classes.token(c, cls) {
        Some(tok) => {
            st.count("converted");
            format!("^{tok}$")
        }
        None => {
            st.count("kept_literal");
            baseline.to_string()
        }
    };
    // a rendering that differs as text but denotes the same language is not a violation
    if out != expected && matches!(crate::oracle::compare(&out, &expected), crate::oracle::Cmp::Equal) {
        st.count("equivalent_rendering");
        return;
    }
    if out != expected {
        let mut case = case_json(&tcs, s);
        case["output"] = json!(out);
        case["expected"] = json!(expected);
        case["code_point"] = json!(format!("U+{:04X}", c as u32));
        case["regex_crate_says"] = json!({"digit": ctx.classes.is_digit(c), "word": ctx.classes.is_word(c), "space": ctx.classes.is_space(c)});
        st.violation(
            "classification_differs_from_regex_crate",
            format!("U+{:04X} with {:?}: grex gives {:?}, the regex crate's classes imply {:?}", c as u32, s.names(), out, expected),
            case,
        );
    }
}

/// Classification must not depend on context: for one long test case over many symbols (no combining
/// marks, no repetition conversion) the result is the concatenation of the one-character results.
fn context_case(ctx: &Ctx, st: &mut Stats, w: &str, cls: u32) {
    st.evaluations += 1;
    let s = Settings::new(cls);
    let tcs = [w.to_string()];
    let whole = match build(&tcs, s) {
        Ok(o) => o,
        Err(p) => {
            st.violation("panic", format!("build() panicked: {p}"), case_json(&tcs, s));
            return;
        }
    };
    let mut expected = String::from("^");
    for c in w.chars() {
        match ctx.classes.token(c, cls) {
            Some(tok) => expected.push_str(tok),
            None => {
                let one = build(&[c.to_string()], Settings::new(0)).unwrap_or_default();
                expected.push_str(one.strip_prefix('^').and_then(|x| x.strip_suffix('$')).unwrap_or(&one));
            }
        }
    }
    expected.push('$');
    st.decided += 1;
    st.count("context_cases");
    if whole != expected && matches!(crate::oracle::compare(&whole, &expected), crate::oracle::Cmp::Equal) {
        st.count("equivalent_rendering");
        return;
    }
    if whole != expected {
        let mut case = case_json(&tcs, s);
        case["what"] = json!("context");
        case["output"] = json!(whole);
        case["expected"] = json!(expected);
        st.violation("classification_depends_on_context", format!("{:?} with {:?}: grex gives {:?}, per-character classification gives {:?}", w, s.names(), whole, expected), case);
    }
}

pub fn replay(ctx: &Ctx, case: &serde_json::Value) {
    let (tcs, s) = case_from_json(case);
    let mut st = Stats::new();
    if case.get("what").and_then(|w| w.as_str()) == Some("context") {
        context_case(ctx, &mut st, &tcs[0], s.flags & CLASS_MASK);
    } else if let Some(c) = tcs.first().and_then(|t| t.chars().next()) {
        let base = build(&tcs, Settings::new(0)).unwrap_or_default();
        check(ctx, &mut st, c, s.flags & CLASS_MASK, &base);
    }
    ctx.run.merge(st);
}

pub fn run(ctx: &Ctx) -> i32 {
    let seed = ctx.seed();
    let singles = [DIGIT, NDIGIT, SPACE, NSPACE, WORD, NWORD];
    // boundary set: every range boundary +-1 of the regex crate's three classes, plus fixed landmarks
    let mut boundary: Vec<u32> = vec![];
    for t in [&ctx.classes.digit, &ctx.classes.word, &ctx.classes.space] {
        for &(lo, hi) in t.iter() {
            for d in [lo.wrapping_sub(1), lo, lo + 1, hi.wrapping_sub(1), hi, hi + 1] {
                boundary.push(d);
            }
        }
    }
    boundary.extend([0, 0x7f, 0x80, 0xd7ff, 0xe000, 0xffff, 0x10000, 0x10ffff, 0x5f, 0x2d, 0x20]);
    boundary.sort();
    boundary.dedup();
    let boundary: Vec<char> = boundary.into_iter().filter_map(char::from_u32).collect();
    let all: Vec<char> = (0..=0x10FFFFu32).filter_map(char::from_u32).collect();
    // exhaustive: every scalar x the six single options (both tiers)
    par_for(&ctx.run, all.len(), |i, st| {
        let c = all[i];
        let base = build(&[c.to_string()], Settings::new(0)).unwrap_or_default();
        for cls in singles {
            check(ctx, st, c, cls, &base);
        }
        st.count("scalars_x_single_options");
        st.distinct.insert(c as u64);
    });
    // all 64 subsets: boundaries + seeded stride (quick), every scalar (thorough)
    let stride = 211u32;
    let offset = (seed % stride as u64) as u32;
    let subset_points: Vec<char> = if ctx.thorough {
        all.clone()
    } else {
        let mut v = boundary.clone();
        v.extend(all.iter().copied().filter(|c| (*c as u32) % stride == offset));
        v
    };
    par_for(&ctx.run, subset_points.len(), |i, st| {
        let c = subset_points[i];
        let base = build(&[c.to_string()], Settings::new(0)).unwrap_or_default();
        for cls in 1..64u32 {
            if cls.count_ones() >= 2 {
                check(ctx, st, c, cls, &base);
            }
        }
        st.count("scalars_x_all_subsets");
    });
    // multi-code-point graphemes whose code points belong to different classes x all 63 subsets
    {
        let toks = crate::gen::cluster_tokens();
        par_for(&ctx.run, toks.len() * 63, |i, st| {
            let t = &toks[i % toks.len()];
            let cls = 1 + (i / toks.len()) as u32;
            context_case(ctx, st, t, cls);
            if i % 7 == 0 {
                context_case(ctx, st, &format!("{t}x{t}"), cls);
            }
        });
    }
    // context independence: long test cases over many symbols x class subsets
    let n = if ctx.thorough { 60_000 } else { 4_000 };
    par_for(&ctx.run, n, |i, st| {
        let mut rng = crate::gen::Rng::new(seed, 0x90_0000 + i as u64);
        let w = crate::gen::wide_case(&mut rng).remove(0);
        let cls = 1 + (rng.next() as u32) % 63;
        context_case(ctx, st, &w, cls);
    });
    {
        let mut st = Stats::new();
        st.sample(json!({"code_point": "U+0661", "option": "digits", "output": build(&["\u{661}".to_string()], Settings::new(DIGIT)).unwrap_or_default()}));
        st.sample(json!({"code_point": "U+00B2", "option": "digits+non_words", "output": build(&["\u{b2}".to_string()], Settings::new(DIGIT | NWORD)).unwrap_or_default()}));
        st.sample(json!({"code_point": "U+2003", "option": "all six", "output": build(&["\u{2003}".to_string()], Settings::new(63)).unwrap_or_default()}));
        ctx.run.merge(st);
    }
    ctx.run.finish(
        "cases = every one of the 1,112,064 scalar values as a one-character test case x each of the six single conversion options (exhaustive in both tiers); all 57 multi-option subsets on every range boundary +-1 of the regex crate's \\d \\w \\s classes plus a seeded stride (quick) or on every scalar (thorough); non-trivial/distinct = distinct scalar values exercised",
        "per execution: build([c], options) must be exactly ^<token>$ where the token follows from the regex crate's own class membership of c with the documented precedence, or exactly the default literal rendering when no option applies (whose matching of c is C01's sweep)",
        &["class membership oracle: ranges of the regex-syntax 0.8.4 HIR of \\d, \\w, \\s in Unicode mode"],
        json!({"single_options_exhaustive": true, "all_subsets_exhaustive": ctx.thorough, "boundary_points": boundary.len()}),
        ctx.thorough,
    )
}
