//! Shared end-to-end language monitor: compares the real build() output with a reference pattern
//! and, on a difference, attributes it to pipeline stages to recognise listed known findings.
use crate::attrib;
use crate::cfg::*;
use crate::oracle::{self, Cmp};
use crate::report::*;
use crate::spec::{self, Classes};
use crate::stages;
use serde_json::{json, Value};

pub struct Ctx {
    pub run: Run,
    pub classes: Classes,
    pub thorough: bool,
}

impl Ctx {
    pub fn new(prop: &str, tier: &str, seed: u64, level: &str) -> Self {
        Ctx { run: Run::new(prop, tier, seed, level), classes: Classes::new(), thorough: tier == "thorough" }
    }
    pub fn seed(&self) -> u64 {
        self.run.seed
    }
}

#[derive(PartialEq, Eq, Debug, Clone, Copy)]
pub enum Outcome {
    Held,
    Known,
    Violated,
    Inconclusive,
}

/// `left` must equal `right` as a language (both fully anchored patterns). `left` is (derived from)
/// the build output `out` of (`tcs`, `s`) whose hook events are `ev`.
#[allow(clippy::too_many_arguments)]
pub fn expect_equal(
    ctx: &Ctx,
    st: &mut Stats,
    kind: &str,
    left: &str,
    right: &str,
    tcs: &[String],
    s: Settings,
    out: &str,
    ev: &Events,
    extra: Value,
    // when the reference is itself a build() result: its settings, output and events
    right_build: Option<(Settings, &str, &Events)>,
) -> Outcome {
    st.count("e1_comparisons");
    match oracle::compare(left, right) {
        Cmp::Equal => Outcome::Held,
        Cmp::Inconclusive(e) => {
            // the exact oracle hit a size limit: fall back to differential probing with the real
            // engine (test cases, prefixes, one-character substitutions / deletions / insertions)
            match probe_compare(left, right, tcs) {
                Some(None) => {
                    st.count("decided_by_probes_after_oracle_limit");
                    Outcome::Held
                }
                Some(Some((w, left_accepts))) => {
                    let mut case = case_json(tcs, s);
                    case["output"] = json!(out);
                    case["witness"] = json!(w);
                    case["extra"] = extra;
                    st.violation(kind, format!("(probe) {} {:?} but reference {}", if left_accepts { "accepts" } else { "rejects" }, w, if left_accepts { "rejects it" } else { "accepts it" }), case);
                    Outcome::Violated
                }
                None => {
                    st.inconclusive(&e);
                    Outcome::Inconclusive
                }
            }
        }
        Cmp::Invalid { left: is_left, err } => {
            let mut case = case_json(tcs, s);
            case["output"] = json!(out);
            case["extra"] = extra;
            if is_left {
                ctx.run.classify(st, None, &format!("{kind}:invalid_pattern"), format!("pattern rejected by regex-syntax: {err}"), case);
                Outcome::Violated
            } else {
                st.inconclusive(&format!("reference pattern invalid: {err}"));
                Outcome::Inconclusive
            }
        }
        Cmp::Differ { witness, left_accepts } => {
            let mut case = case_json(tcs, s);
            case["output"] = json!(out);
            case["left"] = json!(left);
            case["right"] = json!(right);
            case["witness"] = json!(witness);
            case["output_side_accepts_witness"] = json!(left_accepts);
            case["extra"] = extra;
            // attribution to stages, to recognise known findings by call site
            let t = stages::trace(ev);
            let sp = spec::spec(&ctx.classes, tcs, s);
            let rep = attrib::analyse(&t, s, out, &sp);
            let mut clean = rep.clean();
            let mut summary = rep.summary();
            // deviations from the specification that reached the output, per side
            let mut on_path: Vec<attrib::StageDiff> = rep.diffs.iter().filter(|d| d.on_path).cloned().collect();
            if let Some((rs, rout, rev)) = right_build {
                let rt = stages::trace(rev);
                let rsp = spec::spec(&ctx.classes, tcs, rs);
                let rrep = attrib::analyse(&rt, rs, rout, &rsp);
                clean &= rrep.clean();
                summary = format!("{summary} || reference build: {}", rrep.summary());
                for d in rrep.diffs.iter().filter(|d| d.on_path) {
                    // the same known deviation on both sides does not explain a difference between them
                    if let Some(k) = on_path.iter().position(|l| l.known.is_some() && l.known == d.known && l.from == d.from && l.to == d.to && l.witness == d.witness && l.to_accepts == d.to_accepts) {
                        on_path.remove(k);
                    } else {
                        on_path.push(d.clone());
                    }
                }
            }
            case["stage_attribution"] = json!(summary);
            let mut ids: Vec<&'static str> = on_path.iter().filter_map(|d| d.known).collect();
            ids.sort();
            ids.dedup();
            let explained = clean && !on_path.is_empty() && on_path.iter().all(|d| d.known.is_some()) && ids.iter().all(|id| ctx.run.kf.enabled(&ctx.run.prop, id));
            let detail = format!(
                "{} {:?} but reference {}; stages: {}",
                if left_accepts { "accepts" } else { "rejects" },
                witness,
                if left_accepts { "rejects it" } else { "accepts it" },
                summary
            );
            if explained {
                for id in ids {
                    st.known(id, detail.clone(), case.clone());
                }
                Outcome::Known
            } else {
                st.violation(kind, detail, case);
                Outcome::Violated
            }
        }
    }
}

/// Differential probing of two fully anchored patterns with `regex::Regex`: returns
/// `Some(None)` when they agree on every probe, `Some(Some((probe, left_accepts)))` on a
/// disagreement, `None` when a pattern cannot be compiled.
pub fn probe_compare(left: &str, right: &str, tcs: &[String]) -> Option<Option<(String, bool)>> {
    let l = oracle::real_regex(left).ok()?;
    let r = oracle::real_regex(right).ok()?;
    let mut probes: Vec<String> = vec![String::new()];
    let subst = ['a', 'Z', '0', '9', ' ', '-', '_', '\u{e9}', '\u{661}', '\t', '.', '\\'];
    for t in tcs.iter().take(40) {
        probes.push(t.clone());
        let cs: Vec<char> = t.chars().collect();
        let step = (cs.len() / 40).max(1);
        for i in (0..cs.len()).step_by(step) {
            probes.push(cs[..i].iter().collect());
            let mut d = cs.clone();
            d.remove(i);
            probes.push(d.iter().collect());
            let mut e = cs.clone();
            e.insert(i, cs[i]);
            probes.push(e.iter().collect());
            for c in subst {
                let mut x = cs.clone();
                x[i] = c;
                probes.push(x.iter().collect());
            }
            // swap with an earlier character of the same test case
            if i > 0 {
                let mut x = cs.clone();
                x[i] = cs[i / 2];
                probes.push(x.iter().collect());
            }
        }
    }
    for p in probes {
        let (a, b) = (l.is_match(&p), r.is_match(&p));
        if a != b {
            return Some(Some((p, a)));
        }
    }
    Some(None)
}
