//! C12 — the CLI is a faithful front end of the library on every input channel.
//! Artifact under test: the `grex` binary built from /repo's working tree (see build.sh).
use crate::cfg::*;
use crate::e2e::Ctx;
use crate::gen::{self, Rng};
use crate::report::*;
use grex::RegExpBuilder;
use serde_json::{json, Value};
use std::io::Write;
use std::path::{Path, PathBuf};
use std::process::{Command, Stdio};

pub const GREX_BIN: &str = "/verif/.build/cli/release/grex";

fn cli_args(s: Settings, variant: usize) -> Vec<String> {
    let mut a: Vec<String> = vec![];
    let short = variant % 2 == 0;
    let mut push = |f: u32, sh: &str, lg: &str| {
        if s.has(f) {
            a.push(if short && !sh.is_empty() { sh.to_string() } else { lg.to_string() });
        }
    };
    push(DIGIT, "-d", "--digits");
    push(NDIGIT, "-D", "--non-digits");
    push(SPACE, "-s", "--spaces");
    push(NSPACE, "-S", "--non-spaces");
    push(WORD, "-w", "--words");
    push(NWORD, "-W", "--non-words");
    push(REP, "-r", "--repetitions");
    push(CI, "-i", "--ignore-case");
    push(CAP, "-g", "--capture-groups");
    push(ESC, "-e", "--escape");
    push(SURR, "", "--with-surrogates");
    push(VERB, "-x", "--verbose");
    push(COLOR, "-c", "--colorize");
    if s.has(NOSTART) && s.has(NOEND) && variant % 3 != 0 {
        a.push("--no-anchors".into());
    } else {
        if s.has(NOSTART) {
            a.push("--no-start-anchor".into());
        }
        if s.has(NOEND) {
            a.push("--no-end-anchor".into());
        }
    }
    if s.min_rep != 1 || variant % 5 == 0 {
        a.push("--min-repetitions".into());
        a.push(s.min_rep.to_string());
    }
    if s.min_len != 1 || variant % 7 == 0 {
        a.push("--min-substring-length".into());
        a.push(s.min_len.to_string());
    }
    a
}

struct Out {
    code: Option<i32>,
    stdout: Vec<u8>,
    stderr: String,
}

fn run_cli(args: &[String], stdin: Option<&[u8]>) -> std::io::Result<Out> {
    run_cli_env(args, stdin, &[])
}

fn run_cli_env(args: &[String], stdin: Option<&[u8]>, env: &[(&str, &str)]) -> std::io::Result<Out> {
    let mut cmd = Command::new(GREX_BIN);
    cmd.args(args).stdout(Stdio::piped()).stderr(Stdio::piped());
    for (k, v) in env {
        if v.is_empty() {
            cmd.env_remove(k);
        } else {
            cmd.env(k, v);
        }
    }
    cmd.stdin(if stdin.is_some() { Stdio::piped() } else { Stdio::null() });
    let mut child = cmd.spawn()?;
    if let Some(data) = stdin {
        let mut si = child.stdin.take().unwrap();
        let _ = si.write_all(data);
        drop(si);
    }
    let o = child.wait_with_output()?;
    Ok(Out { code: o.status.code(), stdout: o.stdout, stderr: String::from_utf8_lossy(&o.stderr).to_string() })
}

fn argument_safe(tcs: &[String]) -> bool {
    tcs.iter().all(|t| !t.starts_with('-') && !t.contains('\0'))
}

fn line_safe(tcs: &[String]) -> bool {
    tcs.iter().all(|t| !t.contains('\n') && !t.contains('\r'))
}

fn file_content(tcs: &[String], crlf: bool, final_newline: bool) -> String {
    let sep = if crlf { "\r\n" } else { "\n" };
    let mut s = tcs.join(sep);
    if final_newline {
        s.push_str(sep);
    }
    s
}

pub struct Tmp {
    dir: PathBuf,
}

impl Tmp {
    pub fn new() -> Self {
        let dir = PathBuf::from(format!("/verif/.build/tmp/c12-{}", std::process::id()));
        let _ = std::fs::create_dir_all(&dir);
        Tmp { dir }
    }
    fn path(&self, name: &str) -> PathBuf {
        self.dir.join(name)
    }
}

impl Drop for Tmp {
    fn drop(&mut self) {
        let _ = std::fs::remove_dir_all(&self.dir);
    }
}

fn from_file_build(path: &Path, s: Settings) -> Result<String, String> {
    std::panic::catch_unwind(|| {
        let mut b = RegExpBuilder::from_file(path);
        s.apply(&mut b);
        b.build()
    })
    .map_err(|_| take_panic())
}

fn expect_success(st: &mut Stats, channel: &str, o: &Out, expected: &str, tcs: &[String], s: Settings, args: &[String]) {
    st.count(&format!("channel_{channel}"));
    let want = format!("{expected}\n");
    let ok = o.code == Some(0) && o.stdout == want.as_bytes();
    if !ok {
        let mut case = case_json(tcs, s);
        case["channel"] = json!(channel);
        case["args"] = json!(args);
        case["exit_code"] = json!(o.code);
        case["stdout"] = json!(String::from_utf8_lossy(&o.stdout));
        case["stderr"] = json!(o.stderr);
        case["expected_stdout"] = json!(want);
        st.violation(
            &format!("cli_differs_from_library_{channel}"),
            format!("grex {:?} via {channel}: exit {:?}, stdout {:?}, library says {:?}; stderr {:?}", args, o.code, String::from_utf8_lossy(&o.stdout), want, o.stderr.lines().next().unwrap_or("")),
            case,
        );
    }
}

/// One case through every applicable channel.
pub fn check_case(_ctx: &Ctx, st: &mut Stats, tmp: &Tmp, id: usize, tcs: &[String], s: Settings) {
    st.evaluations += 1;
    let expected = match build(tcs, s) {
        Ok(o) => o,
        Err(p) => {
            st.inconclusive(&format!("library panicked ({p}); C07's concern"));
            return;
        }
    };
    let flags = cli_args(s, id);
    if argument_safe(tcs) && !(tcs.len() == 1 && tcs[0] == "-") {
        let mut args = flags.clone();
        args.extend(tcs.iter().cloned());
        match run_cli(&args, None) {
            Ok(o) => expect_success(st, "args", &o, &expected, tcs, s, &args),
            Err(e) => st.inconclusive(&format!("spawn: {e}")),
        }
    }
    if line_safe(tcs) {
        for (crlf, final_nl) in [(false, true), (false, false), (true, true), (true, false)] {
            if !final_nl && tcs.last().map(|t| t.is_empty()).unwrap_or(true) {
                continue; // "a\n" cannot express ["a", ""] without a final line ending
            }
            let content = file_content(tcs, crlf, final_nl);
            let name = format!("in-{id}-{}{}.txt", if crlf { "crlf" } else { "lf" }, if final_nl { "-nl" } else { "" });
            let path = tmp.path(&name);
            if std::fs::write(&path, &content).is_err() {
                st.inconclusive("cannot write temp file");
                continue;
            }
            let tag = format!("{}{}", if crlf { "crlf" } else { "lf" }, if final_nl { "_final" } else { "_nofinal" });
            // -f FILE
            let mut args = flags.clone();
            args.push(if id % 2 == 0 { "-f".into() } else { "--file".into() });
            args.push(path.to_string_lossy().to_string());
            if let Ok(o) = run_cli(&args, None) {
                expect_success(st, &format!("file_{tag}"), &o, &expected, tcs, s, &args);
            }
            // - with the test cases on stdin
            let mut args = flags.clone();
            args.push("-".into());
            if let Ok(o) = run_cli(&args, Some(content.as_bytes())) {
                expect_success(st, &format!("stdin_{tag}"), &o, &expected, tcs, s, &args);
            }
            // -f - with the file name on stdin
            let mut args = flags.clone();
            args.push("-f".into());
            args.push("-".into());
            let p = format!("{}\n", path.to_string_lossy());
            if let Ok(o) = run_cli(&args, Some(p.as_bytes())) {
                expect_success(st, &format!("file_from_stdin_{tag}"), &o, &expected, tcs, s, &args);
            }
            // library from_file == from(lines)
            st.count("from_file_vs_from");
            match from_file_build(&path, s) {
                Ok(o) if o == expected => {}
                other => {
                    let mut case = case_json(tcs, s);
                    case["file_content"] = json!(content);
                    case["from_file_result"] = json!(format!("{other:?}"));
                    case["from_result"] = json!(expected);
                    st.violation("from_file_differs_from_from", format!("from_file gives {other:?}, from(lines) gives {expected:?}"), case);
                }
            }
            let _ = std::fs::remove_file(&path);
        }
    }
    st.decided += 1;
    if tcs.len() >= 2 || s.flags != 0 {
        st.distinct.insert(gen::hash_case(tcs, s));
    }
    st.sample(json!({"test_cases": tcs, "args": flags, "library_result": expected}));
}

fn expect_error(st: &mut Stats, what: &str, o: &Out, args: &[String], detail: Value) {
    st.evaluations += 1;
    st.decided += 1;
    st.count(&format!("error_input_{what}"));
    let mut problems = vec![];
    match o.code {
        Some(0) => problems.push("exit status 0".to_string()),
        Some(101) => problems.push("exit status 101 (panic)".to_string()),
        None => problems.push("killed by a signal".to_string()),
        _ => {}
    }
    if o.stderr.contains("panicked") {
        problems.push("stderr contains a panic message".into());
    }
    let error_lines = o.stderr.lines().filter(|l| l.starts_with("error:") || l.starts_with("permission denied:")).count();
    if error_lines != 1 {
        problems.push(format!("{error_lines} lines starting with 'error:'"));
    }
    if !o.stdout.is_empty() {
        problems.push("something was printed to stdout".into());
    }
    if !problems.is_empty() {
        st.violation(
            &format!("bad_error_handling_{what}"),
            format!("{what}: {}; exit {:?}; stderr {:?}", problems.join(", "), o.code, o.stderr.lines().take(3).collect::<Vec<_>>()),
            json!({"args": args, "what": what, "exit_code": o.code, "stderr": o.stderr, "detail": detail}),
        );
    }
    st.distinct.insert(gen::hash_case(&[what.to_string()], Settings::new(args.len() as u32)));
}

/// File names that are unusual but legal, and standard input that arrives in several writes.
fn unusual_channels(st: &mut Stats, tmp: &Tmp) {
    use std::os::unix::ffi::OsStrExt;
    let tcs: Vec<String> = vec!["abc".into(), "abd".into(), "x y".into()];
    let s = Settings::new(0);
    let Ok(expected) = build(&tcs, s) else { return };
    let content = file_content(&tcs, false, true);
    let names: Vec<Vec<u8>> = vec![
        b"plain.txt".to_vec(),
        b"with space.txt".to_vec(),
        "caf\u{e9}-\u{4e2d}.txt".as_bytes().to_vec(),
        b"cas\xE9s-latin1.txt".to_vec(),
        b"r\xFCck\xFF.txt".to_vec(),
        b"-dash.txt".to_vec(),
    ];
    for name in names {
        let path = tmp.dir.join(std::ffi::OsStr::from_bytes(&name));
        if std::fs::write(&path, &content).is_err() {
            continue;
        }
        st.evaluations += 1;
        st.decided += 1;
        st.count("unusual_file_names");
        // as an argument (-f=<path> keeps a leading dash from being read as an option)
        let mut cmd = Command::new(GREX_BIN);
        let mut arg = std::ffi::OsString::from("--file=");
        arg.push(path.as_os_str());
        cmd.arg(arg).stdin(Stdio::null()).stdout(Stdio::piped()).stderr(Stdio::piped());
        if let Ok(o) = cmd.output() {
            let o = Out { code: o.status.code(), stdout: o.stdout, stderr: String::from_utf8_lossy(&o.stderr).to_string() };
            expect_success(st, "file_unusual_name", &o, &expected, &tcs, s, &[format!("--file={}", String::from_utf8_lossy(&name))]);
        }
        // library
        match from_file_build(&path, s) {
            Ok(g) if g == expected => {}
            other => st.violation("from_file_differs_from_from", format!("file name {:?}: from_file gives {other:?}", String::from_utf8_lossy(&name)), json!({"what": "unusual_name", "name": String::from_utf8_lossy(&name)})),
        }
        let _ = std::fs::remove_file(&path);
    }
    // standard input delivered in several writes with pauses: the file name (-f -) and the test cases (-)
    let path = tmp.path("chunked-target.txt");
    if std::fs::write(&path, &content).is_ok() {
        let p = format!("{}\n", path.to_string_lossy());
        for (args, data) in [(vec!["-f".to_string(), "-".to_string()], p.into_bytes()), (vec!["-".to_string()], content.clone().into_bytes())] {
            st.evaluations += 1;
            st.decided += 1;
            st.count("chunked_stdin");
            let child = Command::new(GREX_BIN).args(&args).stdin(Stdio::piped()).stdout(Stdio::piped()).stderr(Stdio::piped()).spawn();
            if let Ok(mut child) = child {
                if let Some(mut si) = child.stdin.take() {
                    let k = data.len() / 2;
                    let _ = si.write_all(&data[..k]);
                    let _ = si.flush();
                    std::thread::sleep(std::time::Duration::from_millis(300));
                    let _ = si.write_all(&data[k..]);
                    drop(si);
                }
                if let Ok(o) = child.wait_with_output() {
                    let o = Out { code: o.status.code(), stdout: o.stdout, stderr: String::from_utf8_lossy(&o.stderr).to_string() };
                    expect_success(st, "stdin_in_two_writes", &o, &expected, &tcs, s, &args);
                }
            }
        }
        let _ = std::fs::remove_file(&path);
    }
}

fn error_inputs(st: &mut Stats, tmp: &Tmp) {
    let p = |name: &str, bytes: &[u8]| {
        let path = tmp.path(name);
        std::fs::write(&path, bytes).unwrap();
        path.to_string_lossy().to_string()
    };
    let empty = p("empty.txt", b"");
    let bad = p("bad-utf8.txt", b"abc\n\xff\xfe\n");
    let missing = tmp.path("does-not-exist.txt").to_string_lossy().to_string();
    let s = |v: &[&str]| v.iter().map(|x| x.to_string()).collect::<Vec<String>>();
    for flags in [s(&[]), s(&["-r"]), s(&["-x", "-c"]), s(&["--no-anchors"])] {
        let with = |rest: &[&str]| {
            let mut a = flags.clone();
            a.extend(s(rest));
            a
        };
        let a = with(&["-f", &empty]);
        if let Ok(o) = run_cli(&a, None) {
            expect_error(st, "empty_file", &o, &a, json!(null));
        }
        let a = with(&["-"]);
        if let Ok(o) = run_cli(&a, Some(b"")) {
            expect_error(st, "empty_stdin", &o, &a, json!(null));
        }
        let a = with(&["-f", "-"]);
        if let Ok(o) = run_cli(&a, Some(format!("{empty}\n").as_bytes())) {
            expect_error(st, "empty_file_named_on_stdin", &o, &a, json!(null));
        }
        let a = with(&["-f", &bad]);
        if let Ok(o) = run_cli(&a, None) {
            expect_error(st, "non_utf8_file", &o, &a, json!(null));
        }
        let a = with(&["-"]);
        if let Ok(o) = run_cli(&a, Some(b"abc\n\xff\xfe\n")) {
            expect_error(st, "non_utf8_stdin", &o, &a, json!(null));
        }
        let a = with(&["-f", &missing]);
        if let Ok(o) = run_cli(&a, None) {
            expect_error(st, "missing_file", &o, &a, json!(null));
        }
        let a = with(&["-f", "-"]);
        if let Ok(o) = run_cli(&a, Some(format!("{missing}\n").as_bytes())) {
            expect_error(st, "missing_file_named_on_stdin", &o, &a, json!(null));
        }
        let a = with(&["--min-repetitions", "0", "abc"]);
        if let Ok(o) = run_cli(&a, None) {
            expect_error(st, "zero_min_repetitions", &o, &a, json!(null));
        }
        let a = with(&["--min-substring-length", "0", "abc"]);
        if let Ok(o) = run_cli(&a, None) {
            expect_error(st, "zero_min_substring_length", &o, &a, json!(null));
        }
        // thresholds that are not a u32: out of range, negative, not a number
        for v in ["4294967296", "4294967298", "8589934593", "99999999999999999999", "-1", "abc", "1.5", ""] {
            for opt in ["--min-repetitions", "--min-substring-length"] {
                let a = with(&["-r", opt, v, "aaaa", "bbbbbb"]);
                if let Ok(o) = run_cli(&a, None) {
                    expect_error(st, "threshold_not_a_u32", &o, &a, json!({"value": v}));
                }
            }
        }
    }
    // blank-only file: one empty test case, a valid input
    let blank = p("blank.txt", b"\n");
    let a = s(&["-f", &blank]);
    if let Ok(o) = run_cli(&a, None) {
        st.evaluations += 1;
        st.decided += 1;
        expect_success(st, "blank_only_file", &o, &build(&[String::new()], Settings::new(0)).unwrap_or_default(), &[String::new()], Settings::new(0), &a);
    }
    // library: from_file on an empty file behaves like from(&[])
    st.evaluations += 1;
    st.decided += 1;
    st.count("from_file_empty");
    let r = from_file_build(Path::new(&empty), Settings::new(0));
    let from_empty = std::panic::catch_unwind(|| RegExpBuilder::from(&[] as &[&str]).build()).map_err(|_| take_panic());
    let same = match (&r, &from_empty) {
        (Err(a), Err(b)) => a.split(" @ ").next() == b.split(" @ ").next(),
        (Ok(a), Ok(b)) => a == b,
        _ => false,
    };
    if !same {
        st.violation(
            "from_file_differs_from_from",
            format!("from_file(<empty file>) gives {r:?} but from(&[]) gives {from_empty:?}"),
            json!({"what": "from_file_empty", "from_file": format!("{r:?}"), "from": format!("{from_empty:?}")}),
        );
    }
}

pub const DISCRIMINATING: [&str; 5] = ["aaa bb 12 É💩.", "aaa bb", "a", "xyxyxy", "AAA BB"];

pub fn replay(ctx: &Ctx, case: &Value) {
    let tmp = Tmp::new();
    let mut st = Stats::new();
    if case.get("what").is_some() {
        error_inputs(&mut st, &tmp);
    } else {
        let (tcs, s) = case_from_json(case);
        for id in 0..4 {
            check_case(ctx, &mut st, &tmp, id, &tcs, s);
        }
    }
    ctx.run.merge(st);
}

pub fn run(ctx: &Ctx) -> i32 {
    if !Path::new(GREX_BIN).exists() {
        println!("[C12] ERROR: {GREX_BIN} missing (build.sh cli failed?)");
        return 3;
    }
    let seed = ctx.seed();
    let tmp = Tmp::new();
    let disc: Vec<String> = DISCRIMINATING.iter().map(|s| s.to_string()).collect();
    // the probe input must discriminate every flag and threshold, otherwise a crossed wire is invisible
    {
        let mut st = Stats::new();
        let base = build(&disc, Settings::with(REP, 1, 1)).unwrap_or_default();
        let plain = build(&disc, Settings::new(0)).unwrap_or_default();
        for (name, f) in FLAG_NAMES {
            let s = if f == SURR { Settings::new(ESC | SURR) } else { Settings::new(f) };
            let reference = if f == SURR { build(&disc, Settings::new(ESC)).unwrap_or_default() } else { plain.clone() };
            if build(&disc, s).unwrap_or_default() == reference {
                st.inconclusive(&format!("probe input does not discriminate flag {name}"));
            }
        }
        for (m, l) in [(2, 1), (1, 2), (3, 1), (1, 3)] {
            if build(&disc, Settings::with(REP, m, l)).unwrap_or_default() == base {
                st.inconclusive(&format!("probe input does not discriminate thresholds ({m},{l})"));
            }
        }
        ctx.run.merge(st);
    }
    // single flags, all pairs, thresholds on the discriminating input
    let mut settings: Vec<Settings> = vec![Settings::new(0)];
    let flags: Vec<u32> = FLAG_NAMES.iter().map(|(_, f)| *f).collect();
    for (i, &f) in flags.iter().enumerate() {
        settings.push(Settings::new(f).normalised());
        for &g in &flags[i + 1..] {
            settings.push(Settings::new(f | g).normalised());
        }
    }
    for m in 1..=4 {
        for l in 1..=4 {
            settings.push(Settings::with(REP, m, l));
        }
    }
    settings.push(Settings::with(REP, u32::MAX, 1));
    settings.push(Settings::with(REP, 1, u32::MAX));
    settings.push(Settings::with(REP, u32::MAX - 1, u32::MAX - 1));
    settings.push(Settings::with(REP | VERB, 2, 2));
    settings.sort();
    settings.dedup();
    par_for(&ctx.run, settings.len(), |i, st| {
        st.count("discriminating_input_flag_sets");
        check_case(ctx, st, &tmp, i, &disc, settings[i]);
    });
    if std::env::var("VERIF_TIMING").is_ok() { eprintln!("[timing] c12.rs block 1: {:.1}s", ctx.run.started.elapsed().as_secs_f64()); }
    // random subsets of flags on the discriminating input
    let n = if ctx.thorough { 3000 } else { 150 };
    par_for(&ctx.run, n, |i, st| {
        let mut rng = Rng::new(seed, 0x120_0000 + i as u64);
        let mut s = Settings::new((rng.next() as u32) & ALL_FLAGS).normalised();
        if s.has(REP) {
            s.min_rep = 1 + rng.below(3) as u32;
            s.min_len = 1 + rng.below(3) as u32;
        }
        st.count("discriminating_input_random_flag_sets");
        check_case(ctx, st, &tmp, 1000 + i, &disc, s);
    });
    if std::env::var("VERIF_TIMING").is_ok() { eprintln!("[timing] c12.rs block 2: {:.1}s", ctx.run.started.elapsed().as_secs_f64()); }
    // random argument-safe inputs x random flags
    let n = if ctx.thorough { 6000 } else { 300 };
    let names = ["ab", "meta", "mixed", "ws", "graph", "astral", "classes", "case", "sgr"];
    let alphabets: Vec<(String, Vec<String>)> = names.iter().map(|a| (a.to_string(), gen::alphabet(a))).collect();
    par_for(&ctx.run, n, |i, st| {
        let mut rng = Rng::new(seed, 0x121_0000 + i as u64);
        let (name, al) = &alphabets[i % alphabets.len()];
        let mut tcs = gen::family(&mut rng, al);
        for t in tcs.iter_mut() {
            *t = t.replace('\0', "0");
            if t.starts_with('-') {
                t.insert(0, 'x');
            }
        }
        let s = gen::settings(&mut rng, ALL_FLAGS);
        st.count(&format!("random_{name}"));
        check_case(ctx, st, &tmp, 100_000 + i, &tcs, s);
    });
    if std::env::var("VERIF_TIMING").is_ok() { eprintln!("[timing] c12.rs block 3: {:.1}s", ctx.run.started.elapsed().as_secs_f64()); }
    // every blank / ignorable character as the very first and very last character of the input
    {
        let ws = gen::alphabet("ws");
        let mut cases: Vec<Vec<String>> = vec![];
        for c in &ws {
            if c == "\n" || c == "\r" {
                continue;
            }
            cases.push(vec![format!("{c}abc"), "def".to_string()]);
            cases.push(vec![c.clone(), "x".to_string()]);
            cases.push(vec!["abc".to_string(), format!("def{c}")]);
        }
        par_for(&ctx.run, cases.len(), |i, st| {
            st.count("ignorable_first_last_character_cases");
            check_case(ctx, st, &tmp, 300_000 + i, &cases[i], Settings::new(0));
        });
        if std::env::var("VERIF_TIMING").is_ok() { eprintln!("[timing] c12.rs inner 101: {:.1}s", ctx.run.started.elapsed().as_secs_f64()); }
        // results with hundreds of class tokens (larger than the regex crate's default size limit)
        let heavy: Vec<(Vec<String>, u32)> = vec![
            (vec!["x".repeat(230)], WORD),
            (vec!["x".repeat(120), "y".repeat(118)], WORD | REP),
            (vec!["-".repeat(250)], NWORD),
        ];
        let mut heavy = heavy;
        if ctx.thorough {
            heavy.push((vec!["7".repeat(2400)], DIGIT));
            heavy.push((vec!["ab ".repeat(120)], WORD | SPACE));
        }
        par_for(&ctx.run, heavy.len(), |i, st| {
            st.count("class_heavy_large_results");
            check_case(ctx, st, &tmp, 400_000 + i, &heavy[i].0, Settings::new(heavy[i].1));
        });
        if std::env::var("VERIF_TIMING").is_ok() { eprintln!("[timing] c12.rs inner 102: {:.1}s", ctx.run.started.elapsed().as_secs_f64()); }
    }
    // large inputs through every channel: many lines / long lines / sizes around I/O buffer boundaries
    {
        let mut big: Vec<Vec<String>> = vec![];
        let mut rng = Rng::new(seed, 0x123_0000);
        let ab = gen::alphabet("abc");
        big.push((0..600).map(|_| (0..1 + rng.below(3)).map(|_| rng.pick(&ab).clone()).collect::<String>()).collect());
        big.push((0..2).map(|_| (0..250).map(|_| rng.pick(&ab).clone()).collect::<String>()).collect());
        for target in [8192usize, 8193, 65536] {
            // total file size exactly around `target` bytes: lines of 63 characters + newline
            let lines = target / 64;
            let mut v: Vec<String> = (0..lines).map(|k| format!("{:063}", k % 7)).collect();
            let rest = target % 64;
            if rest > 1 {
                v.push("z".repeat(rest - 1));
            }
            big.push(v);
        }
        par_for(&ctx.run, big.len(), |i, st| {
            st.count("large_channel_inputs");
            check_case(ctx, st, &tmp, 200_000 + i, &big[i], Settings::new(if i % 2 == 0 { 0 } else { REP }));
        });
        if std::env::var("VERIF_TIMING").is_ok() { eprintln!("[timing] c12.rs inner 103: {:.1}s", ctx.run.started.elapsed().as_secs_f64()); }
    }
    // files of 60-200 KiB with LF / CRLF line endings whose line feeds sweep every position relative to
    // 4 KiB .. 64 KiB block boundaries (mostly duplicate lines, so the build itself stays cheap)
    {
        let mut files: Vec<(Vec<String>, bool)> = vec![];
        for first_len in 0..4usize {
            for (lines, crlf) in [(16_500usize, true), (33_000, true), (50_000, true), (22_000, false)] {
                let mut v = vec!["x".repeat(first_len + 1)];
                v.extend((0..lines).map(|k| if k % 9973 == 0 { "cd".to_string() } else { "ab".to_string() }));
                files.push((v, crlf));
            }
        }
        par_for(&ctx.run, files.len(), |i, st| {
            let (tcs, crlf) = &files[i];
            let path = tmp.path(&format!("block-{i}.txt"));
            let content = file_content(tcs, *crlf, i % 2 == 0);
            if std::fs::write(&path, &content).is_err() {
                return;
            }
            st.evaluations += 1;
            st.count("block_boundary_files");
            let s = Settings::new(0);
            let expected = build(tcs, s);
            let got = from_file_build(&path, s);
            let mut args = vec!["-f".to_string(), path.to_string_lossy().to_string()];
            let cli = run_cli(&args, None);
            args.clear();
            let _ = std::fs::remove_file(&path);
            match (expected, got) {
                (Ok(e), Ok(g)) => {
                    st.decided += 1;
                    if e != g {
                        st.violation("from_file_differs_from_from", format!("{} byte file, crlf={crlf}: from_file gives {g:?}, from(lines) gives {e:?}", content.len()), json!({"what": "block_file", "first_len": tcs[0].len(), "lines": tcs.len(), "crlf": crlf}));
                    }
                    if let Ok(o) = cli {
                        expect_success(st, "file_block_boundary", &o, &e, &tcs[..2.min(tcs.len())], s, &["-f <block file>".to_string()]);
                    }
                }
                _ => st.inconclusive("library panicked (C07's concern)"),
            }
        });
    }
    // environment independence: locale, terminal and colour variables, working directory
    {
        let envs: Vec<Vec<(&str, &str)>> = vec![
            vec![("LC_ALL", "C")],
            vec![("LC_ALL", "tr_TR.UTF-8"), ("LANG", "tr_TR.UTF-8")],
            vec![("LC_ALL", ""), ("LC_CTYPE", "az_AZ.UTF-8"), ("LANG", "az")],
            vec![("LANG", "de_DE.UTF-8"), ("LC_ALL", "")],
            vec![("LC_ALL", "ja_JP.eucJP")],
            vec![("TERM", "dumb"), ("NO_COLOR", "1")],
            vec![("CLICOLOR_FORCE", "1"), ("COLORTERM", "truecolor"), ("TERM", "xterm-256color")],
            vec![("COLUMNS", "10"), ("LINES", "5")],
            vec![("HOME", ""), ("TMPDIR", "/nonexistent"), ("RUST_BACKTRACE", "1")],
        ];
        let inputs: Vec<Vec<String>> = vec![
            vec!["ISPARTA".into(), "\u{130}zmir".into(), "i\u{131}I".into()],
            disc.clone(),
            vec!["1,5".into(), "2.75".into(), "\u{df}".into(), "SS".into()],
        ];
        let flag_sets: Vec<Settings> = vec![Settings::new(CI), Settings::new(CI | REP | VERB), Settings::new(0), Settings::new(COLOR | CI), Settings::new(DIGIT | WORD | CI)];
        par_for(&ctx.run, envs.len() * inputs.len() * flag_sets.len(), |i, st| {
            let env = &envs[i % envs.len()];
            let tcs = &inputs[(i / envs.len()) % inputs.len()];
            let s = flag_sets[i / (envs.len() * inputs.len())];
            st.evaluations += 1;
            st.count("environment_variants");
            let Ok(expected) = build(tcs, s) else { return };
            let mut args = cli_args(s, i);
            args.extend(tcs.iter().cloned());
            if let Ok(o) = run_cli_env(&args, None, env) {
                st.decided += 1;
                let before = st.verdicts.len();
                expect_success(st, "args_env", &o, &expected, tcs, s, &args);
                if st.verdicts.len() > before {
                    if let Some(Verdict::Violation { detail, .. }) = st.verdicts.last_mut() {
                        detail.push_str(&format!(" [environment {:?}]", env));
                    }
                }
            }
        });
    }
    // RegExpBuilder::from_file vs from(lines), in process (no spawn): many line-safe inputs incl. lines
    // starting / ending with blanks, BOM-like and other ignorable characters
    let n = if ctx.thorough { 60_000 } else { 6_000 };
    let ff_names = ["ws", "mixed", "meta", "graph", "tokens"];
    let ff_als: Vec<Vec<String>> = ff_names.iter().map(|a| gen::alphabet(a)).collect();
    par_for(&ctx.run, n, |i, st| {
        let mut rng = Rng::new(seed, 0x122_0000 + i as u64);
        let mut tcs = gen::family(&mut rng, &ff_als[i % ff_als.len()]);
        for t in tcs.iter_mut() {
            *t = t.replace(['\n', '\r'], "|");
        }
        if tcs.last().map(|t| t.is_empty()).unwrap_or(true) {
            tcs.push("x".to_string());
        }
        let s = if i % 2 == 0 { Settings::new(0) } else { gen::settings(&mut rng, ALL_FLAGS & !COLOR) };
        let crlf = i % 3 == 0;
        let final_nl = i % 2 == 0;
        let path = tmp.path(&format!("ff-{i}.txt"));
        let content = file_content(&tcs, crlf, final_nl);
        if std::fs::write(&path, &content).is_err() {
            return;
        }
        st.evaluations += 1;
        st.count("from_file_vs_from_in_process");
        let expected = build(&tcs, s);
        let got = from_file_build(&path, s);
        let _ = std::fs::remove_file(&path);
        match (expected, got) {
            (Ok(e), Ok(g)) => {
                st.decided += 1;
                st.distinct.insert(gen::hash_case(&tcs, s));
                if e != g {
                    let mut case = case_json(&tcs, s);
                    case["file_content"] = json!(content);
                    st.violation("from_file_differs_from_from", format!("from_file gives {g:?}, from(lines) gives {e:?}"), case);
                }
            }
            _ => st.inconclusive("library panicked (C07's concern)"),
        }
    });
    if std::env::var("VERIF_TIMING").is_ok() { eprintln!("[timing] c12.rs block 4: {:.1}s", ctx.run.started.elapsed().as_secs_f64()); }
    // error inputs, unusual file names, chunked standard input
    {
        let mut st = Stats::new();
        unusual_channels(&mut st, &tmp);
        error_inputs(&mut st, &tmp);
        ctx.run.merge(st);
    }
    drop(tmp);
    ctx.run.finish(
        "cases = a discriminating input (on which each of the 15 flags and both thresholds changes the library result; verified at run time) x {no flag, every single flag, every pair of flags, thresholds 1..=4 x 1..=4, random flag subsets}, random argument-safe inputs over 9 alphabets x random flags; each case through up to 13 channel variants: arguments, -f FILE, '-' (stdin), '-f -' (file name on stdin) x {LF, CRLF} x {final line ending or not}, plus RegExpBuilder::from_file vs from(lines); error inputs: empty file/stdin, non-UTF-8 file/stdin, missing file, zero thresholds x 4 flag sets; non-trivial = >=2 test cases or any flag; distinct by (set of test cases, settings)",
        "per execution the stdout, stderr and exit status of the grex binary built from /repo are compared with the in-process RegExpBuilder result + newline; error inputs must exit non-zero (not 101), print exactly one 'error:'/'permission denied:' line, nothing on stdout and no panic message",
        &["short and long option spellings are alternated by case index", "clap's usage hint after its own error line is tolerated"],
        json!({"binary": GREX_BIN}),
        false,
    )
}
