//! Settings lattice of RegExpBuilder and a panic-catching build wrapper.
use grex::RegExpBuilder;
use serde_json::{json, Value};
use std::cell::RefCell;
use std::panic::{catch_unwind, AssertUnwindSafe};

pub const DIGIT: u32 = 1 << 0;
pub const NDIGIT: u32 = 1 << 1;
pub const SPACE: u32 = 1 << 2;
pub const NSPACE: u32 = 1 << 3;
pub const WORD: u32 = 1 << 4;
pub const NWORD: u32 = 1 << 5;
pub const REP: u32 = 1 << 6;
pub const CI: u32 = 1 << 7;
pub const CAP: u32 = 1 << 8;
pub const ESC: u32 = 1 << 9;
pub const SURR: u32 = 1 << 10;
pub const VERB: u32 = 1 << 11;
pub const NOSTART: u32 = 1 << 12;
pub const NOEND: u32 = 1 << 13;
pub const COLOR: u32 = 1 << 14;
pub const ALL_FLAGS: u32 = (1 << 15) - 1;
pub const CLASS_MASK: u32 = DIGIT | NDIGIT | SPACE | NSPACE | WORD | NWORD;

pub const FLAG_NAMES: [(&str, u32); 15] = [
    ("digits", DIGIT),
    ("non_digits", NDIGIT),
    ("spaces", SPACE),
    ("non_spaces", NSPACE),
    ("words", WORD),
    ("non_words", NWORD),
    ("repetitions", REP),
    ("case_insensitive", CI),
    ("capture", CAP),
    ("escape", ESC),
    ("surrogates", SURR),
    ("verbose", VERB),
    ("no_start_anchor", NOSTART),
    ("no_end_anchor", NOEND),
    ("color", COLOR),
];

#[derive(Clone, Copy, Debug, PartialEq, Eq, Hash, PartialOrd, Ord)]
pub struct Settings {
    pub flags: u32,
    pub min_rep: u32,
    pub min_len: u32,
}

impl Settings {
    pub fn new(flags: u32) -> Self {
        Settings { flags, min_rep: 1, min_len: 1 }
    }
    pub fn with(flags: u32, min_rep: u32, min_len: u32) -> Self {
        Settings { flags, min_rep, min_len }
    }
    pub fn has(&self, f: u32) -> bool {
        self.flags & f != 0
    }
    pub fn or(&self, f: u32) -> Self {
        Settings { flags: self.flags | f, ..*self }
    }
    pub fn without(&self, f: u32) -> Self {
        Settings { flags: self.flags & !f, ..*self }
    }
    /// SURR is only reachable through the escaping setter; normalise.
    pub fn normalised(mut self) -> Self {
        if self.flags & SURR != 0 {
            self.flags |= ESC;
        }
        self
    }
    pub fn names(&self) -> Vec<&'static str> {
        FLAG_NAMES.iter().filter(|(_, f)| self.flags & f != 0).map(|(n, _)| *n).collect()
    }
    pub fn to_json(&self) -> Value {
        json!({"flags": self.flags, "flag_names": self.names(), "min_rep": self.min_rep, "min_len": self.min_len})
    }
    pub fn from_json(v: &Value) -> Self {
        Settings {
            flags: v["flags"].as_u64().unwrap_or(0) as u32,
            min_rep: v["min_rep"].as_u64().unwrap_or(1) as u32,
            min_len: v["min_len"].as_u64().unwrap_or(1) as u32,
        }
    }
    pub fn apply(&self, b: &mut RegExpBuilder) {
        let f = self.flags;
        if f & DIGIT != 0 {
            b.with_conversion_of_digits();
        }
        if f & NDIGIT != 0 {
            b.with_conversion_of_non_digits();
        }
        if f & SPACE != 0 {
            b.with_conversion_of_whitespace();
        }
        if f & NSPACE != 0 {
            b.with_conversion_of_non_whitespace();
        }
        if f & WORD != 0 {
            b.with_conversion_of_words();
        }
        if f & NWORD != 0 {
            b.with_conversion_of_non_words();
        }
        if f & REP != 0 {
            b.with_conversion_of_repetitions();
        }
        if f & CI != 0 {
            b.with_case_insensitive_matching();
        }
        if f & CAP != 0 {
            b.with_capturing_groups();
        }
        if f & ESC != 0 {
            b.with_escaping_of_non_ascii_chars(f & SURR != 0);
        }
        if f & VERB != 0 {
            b.with_verbose_mode();
        }
        if f & NOSTART != 0 {
            b.without_start_anchor();
        }
        if f & NOEND != 0 {
            b.without_end_anchor();
        }
        if f & COLOR != 0 {
            b.with_syntax_highlighting();
        }
        if self.min_rep != 1 {
            b.with_minimum_repetitions(self.min_rep);
        }
        if self.min_len != 1 {
            b.with_minimum_substring_length(self.min_len);
        }
    }
}

thread_local! {
    static LAST_PANIC: RefCell<Option<String>> = const { RefCell::new(None) };
}

/// Installs a panic hook that records the message and location instead of printing.
pub fn install_quiet_panic_hook() {
    std::panic::set_hook(Box::new(|info| {
        let msg = if let Some(s) = info.payload().downcast_ref::<&str>() {
            s.to_string()
        } else if let Some(s) = info.payload().downcast_ref::<String>() {
            s.clone()
        } else {
            "<non-string panic>".to_string()
        };
        let loc = info.location().map(|l| format!("{}:{}", l.file(), l.line())).unwrap_or_default();
        LAST_PANIC.with(|p| *p.borrow_mut() = Some(format!("{msg} @ {loc}")));
    }));
}

pub fn take_panic() -> String {
    LAST_PANIC.with(|p| p.borrow_mut().take()).unwrap_or_else(|| "<unknown panic>".into())
}

/// The events recorded by the grex_verif hook during one build.
pub type Events = Vec<grex::verif::Event>;

/// Runs the real `RegExpBuilder` and returns the result (or the panic message) plus hook events.
pub fn build_ev(tcs: &[String], s: Settings) -> (Result<String, String>, Events) {
    let _ = grex::verif::take();
    let r = catch_unwind(AssertUnwindSafe(|| {
        let mut b = RegExpBuilder::from(tcs);
        s.apply(&mut b);
        b.build()
    }));
    let ev = grex::verif::take();
    match r {
        Ok(o) => (Ok(o), ev),
        Err(_) => (Err(take_panic()), ev),
    }
}

pub fn build(tcs: &[String], s: Settings) -> Result<String, String> {
    build_ev(tcs, s).0
}

/// `out` made fully anchored, so that `is_match` means "matches in full".
pub fn wrap_full(out: &str, s: Settings) -> String {
    if s.has(NOSTART) || s.has(NOEND) {
        format!("^(?:{out})$")
    } else {
        out.to_string()
    }
}
