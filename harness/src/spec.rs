//! E2 — specification builder: what the pattern is documented to denote, built from the original
//! test cases and the settings, independently of grex. Class membership comes from the regex
//! crate's own classes (regex-syntax HIR), not from grex's tables.
use crate::cfg::*;
use regex_syntax::hir::{Class, HirKind};

pub struct Classes {
    pub digit: Vec<(u32, u32)>,
    pub word: Vec<(u32, u32)>,
    pub space: Vec<(u32, u32)>,
}

pub fn class_ranges(p: &str) -> Vec<(u32, u32)> {
    let hir = regex_syntax::ParserBuilder::new().unicode(true).build().parse(p).unwrap();
    match hir.kind() {
        HirKind::Class(Class::Unicode(c)) => c.ranges().iter().map(|r| (r.start() as u32, r.end() as u32)).collect(),
        k => panic!("not a unicode class: {k:?}"),
    }
}

fn contains(t: &[(u32, u32)], c: char) -> bool {
    let c = c as u32;
    t.binary_search_by(|&(lo, hi)| {
        if c < lo {
            std::cmp::Ordering::Greater
        } else if c > hi {
            std::cmp::Ordering::Less
        } else {
            std::cmp::Ordering::Equal
        }
    })
    .is_ok()
}

impl Classes {
    pub fn new() -> Self {
        Classes { digit: class_ranges(r"\d"), word: class_ranges(r"\w"), space: class_ranges(r"\s") }
    }
    pub fn is_digit(&self, c: char) -> bool {
        contains(&self.digit, c)
    }
    pub fn is_word(&self, c: char) -> bool {
        contains(&self.word, c)
    }
    pub fn is_space(&self, c: char) -> bool {
        contains(&self.space, c)
    }
    /// The documented conversion of one code point: digit, word, space, non-digit, non-word, non-space.
    pub fn token(&self, c: char, flags: u32) -> Option<&'static str> {
        if flags & DIGIT != 0 && self.is_digit(c) {
            Some("\\d")
        } else if flags & WORD != 0 && self.is_word(c) {
            Some("\\w")
        } else if flags & SPACE != 0 && self.is_space(c) {
            Some("\\s")
        } else if flags & NDIGIT != 0 && !self.is_digit(c) {
            Some("\\D")
        } else if flags & NWORD != 0 && !self.is_word(c) {
            Some("\\W")
        } else if flags & NSPACE != 0 && !self.is_space(c) {
            Some("\\S")
        } else {
            None
        }
    }
}

pub fn lit(c: char) -> String {
    format!("\\x{{{:X}}}", c as u32)
}

pub fn lit_str(s: &str) -> String {
    if s.is_empty() {
        "(?:)".to_string()
    } else {
        s.chars().map(lit).collect()
    }
}

/// `[(?i)]^(?:alt_1|...|alt_n)$`
pub fn spec(cl: &Classes, tcs: &[String], s: Settings) -> String {
    let alts: Vec<String> = tcs
        .iter()
        .map(|t| {
            if t.is_empty() {
                "(?:)".to_string()
            } else {
                t.chars()
                    .map(|c| match cl.token(c, s.flags) {
                        Some(tok) => tok.to_string(),
                        None => lit(c),
                    })
                    .collect::<String>()
            }
        })
        .collect();
    format!("{}^(?:{})$", if s.has(CI) { "(?i)" } else { "" }, alts.join("|"))
}

/// A pattern that matches nothing at all.
pub const EMPTY_LANG: &str = "^[a&&b]$";

pub fn alternation_of(alts: &[String]) -> String {
    if alts.is_empty() {
        EMPTY_LANG.to_string()
    } else {
        format!("^(?:{})$", alts.join("|"))
    }
}
