//! Sanitizer legs (thorough tier): the small driver crate /verif/sanitize (depends on grex only) is
//! run under Miri (UB, leaks, data races with many schedule seeds) and ThreadSanitizer; its results
//! are additionally compared with the native in-process results.
use crate::cfg::*;
use crate::e2e::Ctx;
use crate::gen::{self, Rng};
use crate::report::*;
use serde_json::{json, Value};
use std::process::{Command, Stdio};
use std::time::{Duration, Instant};

const DRIVER_DIR: &str = "/verif/sanitize";

fn hex(s: &str) -> String {
    s.bytes().map(|b| format!("{b:02x}")).collect()
}

fn unhex(s: &str) -> Option<String> {
    if s.len() % 2 != 0 {
        return None;
    }
    let b: Option<Vec<u8>> = (0..s.len() / 2).map(|i| u8::from_str_radix(&s[2 * i..2 * i + 2], 16).ok()).collect();
    String::from_utf8(b?).ok()
}

fn write_cases(path: &str, cases: &[(Vec<String>, Settings)]) {
    let mut s = String::new();
    for (tcs, st) in cases {
        s.push_str(&format!("{}\t{}\t{}\t{}\n", st.flags, st.min_rep, st.min_len, tcs.iter().map(|t| hex(t)).collect::<Vec<_>>().join(",")));
    }
    std::fs::write(path, s).expect("write cases");
}

fn cargo(target: &str, rustflags: &str, miriflags: &str) -> Command {
    let mut c = Command::new("cargo");
    c.current_dir(DRIVER_DIR)
        .env("CARGO_NET_OFFLINE", "true")
        .env("RUSTFLAGS", rustflags)
        .env("MIRIFLAGS", miriflags)
        .env("CARGO_TARGET_DIR", format!("/verif/.build/{target}"))
        .stdout(Stdio::piped())
        .stderr(Stdio::piped());
    c
}

struct Finished {
    code: Option<i32>,
    stdout: String,
    stderr: String,
    timed_out: bool,
}

fn wait(mut child: std::process::Child, limit: Duration) -> Finished {
    use std::io::Read;
    let start = Instant::now();
    // drain pipes on threads so that a chatty child cannot block
    let mut so = child.stdout.take();
    let mut se = child.stderr.take();
    let t1 = std::thread::spawn(move || {
        let mut s = String::new();
        if let Some(o) = so.as_mut() {
            let _ = o.read_to_string(&mut s);
        }
        s
    });
    let t2 = std::thread::spawn(move || {
        let mut s = String::new();
        if let Some(o) = se.as_mut() {
            let _ = o.read_to_string(&mut s);
        }
        s
    });
    let mut timed_out = false;
    let code = loop {
        match child.try_wait() {
            Ok(Some(s)) => break s.code(),
            Ok(None) => {
                if start.elapsed() > limit {
                    let _ = child.kill();
                    let _ = child.wait();
                    timed_out = true;
                    break None;
                }
                std::thread::sleep(Duration::from_millis(100));
            }
            Err(_) => break None,
        }
    };
    Finished { code, stdout: t1.join().unwrap_or_default(), stderr: t2.join().unwrap_or_default(), timed_out }
}

/// Compares `idx<TAB>hex(result)` lines with the native results; returns number compared.
fn compare_with_native(st: &mut Stats, leg: &str, stdout: &str, cases: &[(Vec<String>, Settings)]) -> usize {
    let mut n = 0;
    for line in stdout.lines() {
        if line.starts_with("MISMATCH") {
            st.violation(&format!("{leg}_threads_disagree"), line.chars().take(300).collect(), json!({"what": leg, "line": line}));
            continue;
        }
        let mut it = line.split('\t');
        let (Some(i), Some(h)) = (it.next().and_then(|x| x.parse::<usize>().ok()), it.next()) else { continue };
        let (Some(got), Some((tcs, s))) = (unhex(h), cases.get(i)) else { continue };
        n += 1;
        st.evaluations += 1;
        st.decided += 1;
        st.count(&format!("{leg}_builds_compared_with_native"));
        st.distinct.insert(gen::hash_case(tcs, *s) ^ 0x5a5a);
        match build(tcs, *s) {
            Ok(native) if native == got => {}
            other => {
                let mut case = case_json(tcs, *s);
                case["what"] = json!(leg);
                case["sanitizer_result"] = json!(got);
                case["native_result"] = json!(format!("{other:?}"));
                st.violation(&format!("{leg}_differs_from_native"), format!("under {leg} build() returns {got:?}, natively {other:?}"), case);
            }
        }
    }
    n
}

fn small_cases(seed: u64, n: usize, stream: u64, heavy_every: usize) -> Vec<(Vec<String>, Settings)> {
    let alphabets: Vec<Vec<String>> = ["ab", "abc", "mixed", "graph", "meta", "astral"].iter().map(|a| gen::alphabet(a)).collect();
    (0..n)
        .map(|i| {
            let mut rng = Rng::new(seed, stream + i as u64);
            let al = &alphabets[i % alphabets.len()];
            let tcs = if rng.chance(1, 2) { gen::repeat_family(&mut rng, al) } else { gen::family(&mut rng, al) };
            let tcs: Vec<String> = tcs.into_iter().map(|t| t.chars().take(6).collect::<String>()).take(3).collect();
            // builds that reach Regex::new (case-insensitive folding check, self-check without end
            // anchor) or the Unicode class tables are very slow to interpret: only every n-th case
            let cheap = REP | CAP | ESC | SURR | VERB | NOSTART | COLOR;
            let allowed = if heavy_every > 0 && i % heavy_every == heavy_every - 1 { cheap | DIGIT | NWORD | CI } else { cheap };
            let mut s = gen::settings(&mut rng, allowed);
            s.min_rep = s.min_rep.min(3);
            s.min_len = s.min_len.min(3);
            (tcs, s)
        })
        .collect()
}

/// C07: sequential builds under Miri, 16 shards.
pub fn miri_leg(ctx: &Ctx, which: &str) -> Value {
    let mut st = Stats::new();
    let dir = format!("/verif/.build/tmp/miri-{which}-{}", std::process::id());
    let _ = std::fs::create_dir_all(&dir);
    let shards = 16usize;
    let per_shard = 12usize;
    let flags = "-Zmiri-disable-isolation";
    // build once so that the shards do not compile concurrently
    let empty = format!("{dir}/empty.cases");
    write_cases(&empty, &[]);
    let pre = cargo("miri", "--cfg grex_verif", flags).args(["+nightly", "miri", "run", "--offline", "--", "seq", &empty]).spawn();
    let built = match pre {
        Ok(c) => {
            let f = wait(c, Duration::from_secs(1200));
            f.code == Some(0)
        }
        Err(_) => false,
    };
    let mut summary = json!({"miri_shards": shards, "miri_cases_per_shard": per_shard});
    if !built {
        st.inconclusive("miri driver could not be built");
        ctx.run.merge(st);
        summary["miri_leg"] = json!("driver build failed (inconclusive)");
        return summary;
    }
    let mut children = vec![];
    let mut all_cases = vec![];
    for k in 0..shards {
        let cases = small_cases(ctx.seed(), per_shard, 0x7a_0000 + (k as u64) * 1000, 6);
        let path = format!("{dir}/shard-{k}.cases");
        write_cases(&path, &cases);
        let child = cargo("miri", "--cfg grex_verif", flags).args(["+nightly", "miri", "run", "--offline", "--", "seq", &path]).spawn();
        children.push(child);
        all_cases.push(cases);
    }
    let mut compared = 0;
    let mut reports = 0;
    for (k, ch) in children.into_iter().enumerate() {
        let Ok(ch) = ch else {
            st.inconclusive("cannot start cargo miri");
            continue;
        };
        let f = wait(ch, Duration::from_secs(2400));
        if f.timed_out {
            st.inconclusive(&format!("miri shard {k}: watchdog"));
        } else if f.code != Some(0) {
            let is_report = f.stderr.contains("Undefined Behavior") || f.stderr.contains("error: memory leaked") || f.stderr.contains("Data race") || f.stderr.contains("panicked");
            if is_report {
                reports += 1;
                let msg: String = f.stderr.lines().filter(|l| l.contains("error") || l.contains("Undefined") || l.contains("panicked")).take(4).collect::<Vec<_>>().join(" | ");
                st.violation("miri_report", format!("shard {k}: {msg}"), json!({"what": "miri", "shard": k, "stderr_tail": f.stderr.lines().rev().take(30).collect::<Vec<_>>()}));
            } else {
                st.inconclusive(&format!("miri shard {k}: exit {:?} without a report", f.code));
            }
        }
        compared += compare_with_native(&mut st, "miri", &f.stdout, &all_cases[k]);
    }
    let _ = std::fs::remove_dir_all(&dir);
    summary["miri_builds_interpreted"] = json!(compared);
    summary["miri_reports"] = json!(reports);
    summary["miri_flags"] = json!(flags);
    ctx.run.merge(st);
    summary
}

/// C10: ThreadSanitizer (16 threads, native speed) and Miri with many schedule seeds (3 threads).
pub fn c10_legs(ctx: &Ctx) -> Value {
    let mut st = Stats::new();
    let dir = format!("/verif/.build/tmp/c10-san-{}", std::process::id());
    let _ = std::fs::create_dir_all(&dir);
    let mut summary = json!({});
    // ---- ThreadSanitizer
    let tsan_build = cargo("tsan", "-Zsanitizer=thread --cfg grex_verif", "")
        .args(["+nightly", "build", "--offline", "--release", "-Zbuild-std", "--target", "x86_64-unknown-linux-gnu"])
        .spawn()
        .map(|c| wait(c, Duration::from_secs(1800)));
    let bin = "/verif/.build/tsan/x86_64-unknown-linux-gnu/release/sdriver";
    match tsan_build {
        Ok(f) if f.code == Some(0) && std::path::Path::new(bin).exists() => {
            let cases: Vec<(Vec<String>, Settings)> = crate::c10::batch(ctx.seed(), 300);
            let path = format!("{dir}/tsan.cases");
            write_cases(&path, &cases);
            let rounds = 6;
            let mut reports = 0;
            let mut builds = 0;
            for r in 0..rounds {
                let child = Command::new(bin)
                    .args(["threads", &path, "16"])
                    .env("TSAN_OPTIONS", "halt_on_error=0 exitcode=66 second_deadlock_stack=1")
                    .stdout(Stdio::piped())
                    .stderr(Stdio::piped())
                    .spawn();
                let Ok(child) = child else {
                    st.inconclusive("cannot start tsan driver");
                    continue;
                };
                let f = wait(child, Duration::from_secs(900));
                if f.timed_out {
                    st.inconclusive("tsan round: watchdog");
                    continue;
                }
                let n_reports = f.stderr.matches("WARNING: ThreadSanitizer").count();
                if n_reports > 0 || f.code == Some(66) {
                    reports += n_reports.max(1);
                    let first: String = f.stderr.lines().skip_while(|l| !l.contains("WARNING: ThreadSanitizer")).take(25).collect::<Vec<_>>().join("\n");
                    st.violation("tsan_report", format!("round {r}: {n_reports} ThreadSanitizer report(s)"), json!({"what": "tsan", "first_report": first}));
                } else if f.code != Some(0) {
                    st.inconclusive(&format!("tsan driver exit {:?}", f.code));
                }
                builds += compare_with_native(&mut st, "tsan", &f.stdout, &cases) * 16;
            }
            summary["tsan"] = json!({"threads": 16, "rounds": rounds, "concurrent_builds": builds, "reports": reports});
        }
        _ => {
            st.inconclusive("tsan driver could not be built");
            summary["tsan"] = json!("driver build failed (inconclusive)");
        }
    }
    // ---- Miri, many seeds
    let cases = small_cases(ctx.seed(), 5, 0x7b_0000, 2);
    let path = format!("{dir}/miri-threads.cases");
    write_cases(&path, &cases);
    let seeds = 16;
    let flags = format!("-Zmiri-disable-isolation -Zmiri-many-seeds=0..{seeds}");
    let child = cargo("miri", "--cfg grex_verif", &flags).args(["+nightly", "miri", "run", "--offline", "--", "threads", &path, "3"]).spawn();
    match child {
        Err(_) => st.inconclusive("cannot start cargo miri"),
        Ok(c) => {
            let f = wait(c, Duration::from_secs(3000));
            if f.timed_out {
                st.inconclusive("miri many-seeds: watchdog");
            } else if f.code != Some(0) {
                if f.stderr.contains("Undefined Behavior") || f.stderr.contains("Data race") || f.stderr.contains("data race") || f.stderr.contains("panicked") {
                    let msg: String = f.stderr.lines().filter(|l| l.contains("error") || l.contains("ace")).take(4).collect::<Vec<_>>().join(" | ");
                    st.violation("miri_report", msg, json!({"what": "miri_threads", "stderr_tail": f.stderr.lines().rev().take(30).collect::<Vec<_>>()}));
                } else {
                    st.inconclusive(&format!("miri many-seeds exit {:?} without a report", f.code));
                }
            }
            let n = compare_with_native(&mut st, "miri_threads", &f.stdout, &cases);
            summary["miri_many_seeds"] = json!({"seeds": seeds, "threads": 3, "cases": cases.len(), "results_compared": n, "flags": flags});
        }
    }
    let _ = std::fs::remove_dir_all(&dir);
    ctx.run.merge(st);
    summary
}
