//! Sanitizer legs (thorough tier): Miri and ThreadSanitizer drivers under /verif/sanitize.
use crate::e2e::Ctx;
use serde_json::{json, Value};

pub fn miri_leg(_ctx: &Ctx, _which: &str) -> Value {
    json!({"miri_leg": "not built yet"})
}

pub fn c10_legs(_ctx: &Ctx) -> Value {
    json!({"tsan_leg": "not built yet", "miri_leg": "not built yet"})
}
