//! C01 — soundness: the returned pattern compiles with the real regex crate and, fully anchored,
//! matches every original test case. Oracle: regex::Regex (independent of E1).
use crate::cfg::*;
use crate::e2e::Ctx;
use crate::gen::{self, Rng};
use crate::oracle::real_regex;
use crate::report::*;
use crate::stages;
use serde_json::json;

pub const ALLOWED: u32 = ALL_FLAGS & !(SURR | COLOR);

pub fn check_case(ctx: &Ctx, st: &mut Stats, tcs: &[String], s: Settings) {
    st.evaluations += 1;
    let (res, ev) = build_ev(tcs, s);
    let out = match res {
        Ok(o) => o,
        Err(p) => {
            st.violation("panic", format!("build() panicked: {p}"), case_json(tcs, s));
            return;
        }
    };
    let wrapped = wrap_full(&out, s);
    let re = match real_regex(&wrapped) {
        Ok(r) => r,
        Err(regex::Error::Syntax(e)) => {
            let mut case = case_json(tcs, s);
            case["output"] = json!(out);
            st.violation("does_not_compile", format!("regex crate rejects the pattern: {}", e.lines().last().unwrap_or("")), case);
            return;
        }
        Err(e) => {
            st.inconclusive(&format!("compile: {e}"));
            return;
        }
    };
    let unmatched: Vec<&String> = tcs.iter().filter(|t| !re.is_match(t)).collect();
    st.decided += 1;
    if s.has(CI) {
        st.count("with_case_insensitive");
    }
    if gen::nontrivial(tcs) {
        st.distinct.insert(gen::hash_case(tcs, s));
    }
    st.sample(json!({"test_cases": tcs, "settings": s.names(), "output": out, "all_matched": unmatched.is_empty()}));
    if unmatched.is_empty() {
        return;
    }
    let mut case = case_json(tcs, s);
    case["output"] = json!(out);
    case["unmatched"] = json!(unmatched);
    let mut distinct: Vec<&String> = tcs.iter().collect();
    distinct.sort();
    distinct.dedup();
    let t = stages::trace(&ev);
    let is_d1 = unmatched.iter().all(|u| u.is_empty()) && distinct.len() >= 2 && stages::d1_signature(&t);
    ctx.run.classify(
        st,
        if is_d1 { Some("KF-D1") } else { None },
        "test_case_not_matched",
        format!("pattern {:?} does not match test case(s) {:?}", out, unmatched),
        case,
    );
}

pub fn replay(ctx: &Ctx, case: &serde_json::Value) {
    let (tcs, s) = case_from_json(case);
    let mut st = Stats::new();
    check_case(ctx, &mut st, &tcs, s);
    ctx.run.merge(st);
}

pub fn run(ctx: &Ctx) -> i32 {
    let seed = ctx.seed();
    // 1. bounded-exhaustive power sets
    let w_ab = gen::words(&["a", "b"], 3);
    let w_abc = gen::words(&["a", "b", "c"], 2);
    let max_set = if ctx.thorough { 15 } else { 4 };
    for (name, words) in [("ab3", &w_ab), ("abc2", &w_abc)] {
        let subs = gen::subsets(words.len(), max_set.min(words.len()));
        let per_set = if ctx.thorough { 4 } else { 2 };
        par_for(&ctx.run, subs.len(), |i, st| {
            let tcs = gen::pick_subset(words, subs[i]);
            st.count(&format!("exhaustive_{name}_sets"));
            check_case(ctx, st, &tcs, Settings::new(0));
            let mut rng = Rng::new(seed, 0x100 + i as u64);
            for _ in 0..per_set {
                check_case(ctx, st, &tcs, gen::settings(&mut rng, ALLOWED));
            }
        });
    }
    // 2. all sets of <=2 (quick) / <=3 (thorough) one-character strings over metacharacters and blanks
    let mut singles = gen::alphabet("meta");
    singles.extend(gen::alphabet("ws"));
    singles.sort();
    singles.dedup();
    let k = if ctx.thorough { 3 } else { 2 };
    let mut combos: Vec<Vec<usize>> = vec![];
    for i in 0..singles.len() {
        combos.push(vec![i]);
        for j in i + 1..singles.len() {
            combos.push(vec![i, j]);
            if k >= 3 {
                for l in j + 1..singles.len() {
                    combos.push(vec![i, j, l]);
                }
            }
        }
    }
    par_for(&ctx.run, combos.len(), |i, st| {
        let tcs: Vec<String> = combos[i].iter().map(|&x| singles[x].clone()).collect();
        st.count("one_char_sets");
        for f in [0, VERB, ESC, CI, CAP, VERB | CI | CAP, NOSTART | NOEND] {
            check_case(ctx, st, &tcs, Settings::new(f));
        }
    });
    // 2b. deterministic blocks: repeated multi-code-point graphemes and repeated blanks x settings
    let mut det = gen::cluster_repeat_cases();
    det.extend(gen::blank_repeat_cases());
    let det_settings = [0, REP, REP | ESC, REP | DIGIT, REP | WORD, REP | NWORD, REP | VERB, REP | VERB | CAP, VERB, REP | CI | ESC, REP | NOSTART | VERB];
    par_for(&ctx.run, det.len() * det_settings.len(), |i, st| {
        st.count("cluster_and_blank_repeat_cases");
        check_case(ctx, st, &det[i % det.len()], Settings::new(det_settings[i / det.len()]));
    });
    // literal text resembling class tokens next to members of that class
    {
        let look = gen::token_lookalike_cases();
        let extra = [0, REP, REP | ESC, REP | VERB, REP | CAP, CI];
        par_for(&ctx.run, look.len() * extra.len(), |i, st| {
            let (tcs, f) = &look[i % look.len()];
            st.count("token_lookalike_cases");
            check_case(ctx, st, tcs, Settings::new(f | extra[i / look.len()]));
        });
    }
    // periods nested 3-5 levels deep around every metacharacter
    {
        let metas = gen::alphabet("meta");
        par_for(&ctx.run, metas.len() * 3 * 2, |i, st| {
            let mut rng = Rng::new(seed, 0x12_0000 + i as u64);
            let m = metas[i % metas.len()].clone();
            let depth = 3 + (i / metas.len()) % 3;
            let t = gen::nested_periods(&mut rng, &[m.clone(), "a".to_string(), m, "b".to_string()], depth);
            st.count("deeply_nested_periods");
            check_case(ctx, st, &[t], Settings::new(if i < metas.len() * 3 { REP } else { REP | ESC | CAP }));
        });
    }
    // prefixes followed by different sets of repeat counts (all pairs of subsets of {1..5})
    {
        let cs = gen::count_set_cases();
        let step = if ctx.thorough { 1 } else { 1 };
        par_for(&ctx.run, cs.len() / step, |k, st| {
            let i = k * step + (seed as usize % step);
            st.count("count_set_cases");
            check_case(ctx, st, &cs[i], Settings::new(REP));
        });
    }
    // prefixes x^i y^j that fold into shared trie states under repetition conversion
    {
        let n = if ctx.thorough { 100000 } else { 6000 };
        par_for(&ctx.run, n, |i, st| {
            let mut rng = Rng::new(seed, 0x13_0000 + i as u64);
            let tcs = gen::merged_prefix_family(&mut rng, if i % 2 == 0 { &["a", "b"] } else { &["a", "b", "c"] });
            st.count("merged_prefix_families");
            check_case(ctx, st, &tcs, Settings::new(REP | if i % 3 == 0 { CAP | VERB } else { 0 }));
        });
    }
    // 3. structured random families over adversarial alphabets x random lattice points
    let n = if ctx.thorough { 400_000 } else { 24_000 };
    let alphabets: Vec<(String, Vec<String>)> = gen::ALPHABETS.iter().map(|a| (a.to_string(), gen::alphabet(a))).collect();
    par_for(&ctx.run, n, |i, st| {
        let mut rng = Rng::new(seed, 0x10_0000 + i as u64);
        let (name, al) = &alphabets[i % alphabets.len()];
        let tcs = gen::family(&mut rng, al);
        let s = if rng.chance(1, 4) { Settings::new(0) } else { gen::settings(&mut rng, ALLOWED) };
        st.count(&format!("random_{name}"));
        check_case(ctx, st, &tcs, s);
    });
    // medium-sized inputs: many / long test cases, many distinct symbols, long repeats, deep prefix chains
    {
        let n = if ctx.thorough { 6000 } else { 400 };
        let names = ["ab", "abc", "mixed", "meta", "graph", "clusters", "case"];
        let als: Vec<Vec<String>> = names.iter().map(|a| gen::alphabet(a)).collect();
        par_for(&ctx.run, n, |i, st| {
            let mut rng = Rng::new(seed, 0x11_0000 + i as u64);
            let tcs = gen::medium_family(&mut rng, &als[i % als.len()]);
            let tcs: Vec<String> = tcs.into_iter().filter(|t| !t.is_empty()).collect();
            if tcs.is_empty() {
                return;
            }
            st.count("medium_sized_inputs");
            let s = if i % 3 == 0 { Settings::new(0) } else { gen::settings(&mut rng, ALLOWED & !CLASS_MASK) };
            check_case(ctx, st, &tcs, s);
        });
    }
    // 4. single-scalar sweep
    let settings_sweep: Vec<u32> = if ctx.thorough { vec![0, CI, VERB, ESC, DIGIT, WORD, SPACE, NDIGIT, NWORD, NSPACE, REP, CI | VERB | ESC] } else { vec![0, CI, VERB, ESC] };
    let stride = if ctx.thorough { 1 } else { 37 };
    let offset = (seed % stride as u64) as u32;
    let scalars: Vec<char> = (0..=0x10FFFFu32).filter(|c| ctx.thorough || c % stride == offset || *c < 0x300).filter_map(char::from_u32).collect();
    par_for(&ctx.run, scalars.len(), |i, st| {
        let c = scalars[i];
        let tcs = vec![c.to_string()];
        for f in &settings_sweep {
            st.count("scalar_sweep");
            sweep_case(st, &tcs, Settings::new(*f));
        }
    });
    ctx.run.finish(
        "cases = bounded-exhaustive subsets of {a,b}^<=3 and {a,b,c}^<=2 (with the empty string), all small sets of one-character metacharacter/blank strings, structured random families (prefix chains, near-duplicates, repeats, nested periods, shared base) over 10 adversarial alphabets x random settings, and a single-scalar sweep; non-trivial = >=2 distinct test cases sharing a first/last character, or the empty string with another test case, or a non-ASCII/meta character, or an adjacent repeat; distinct by (set of test cases, settings)",
        "every execution: real build(), compile the fully anchored result with regex::Regex, is_match on every original test case",
        &["the regex crate (1.10.6, as locked by the repository) defines 'compiles' and 'matches'", "size-limit compile errors are inconclusive"],
        json!({"exhaustive_subset_size_limit": max_set}),
        false,
    )
}

/// Cheap variant for the scalar sweep (no hook analysis, counted separately).
fn sweep_case(st: &mut Stats, tcs: &[String], s: Settings) {
    st.evaluations += 1;
    match build(tcs, s) {
        Err(p) => st.violation("panic", format!("build() panicked: {p}"), case_json(tcs, s)),
        Ok(out) => match real_regex(&out) {
            Err(regex::Error::Syntax(e)) => {
                let mut case = case_json(tcs, s);
                case["output"] = json!(out);
                st.violation("does_not_compile", e.lines().last().unwrap_or("").to_string(), case)
            }
            Err(e) => st.inconclusive(&format!("compile: {e}")),
            Ok(re) => {
                st.decided += 1;
                if !tcs[0].is_ascii() {
                    st.distinct.insert(gen::hash_case(tcs, s));
                }
                if !re.is_match(&tcs[0]) {
                    let mut case = case_json(tcs, s);
                    case["output"] = json!(out);
                    case["unmatched"] = json!(tcs);
                    st.violation("test_case_not_matched", format!("pattern {:?} does not match U+{:04X}", out, tcs[0].chars().next().unwrap() as u32), case);
                }
            }
        },
    }
}
