//! C10 — build() is a deterministic function of the set of test cases and the accumulated settings.
use crate::cfg::*;
use crate::e2e::Ctx;
use crate::gen::{self, Rng};
use crate::report::*;
use grex::RegExpBuilder;
use serde_json::{json, Value};
use std::collections::HashSet;
use std::panic::{catch_unwind, AssertUnwindSafe};
use std::process::{Command, Stdio};

#[derive(Clone, Debug)]
pub enum Op {
    Flag(u32),
    Esc(bool),
    MinRep(u32),
    MinLen(u32),
    Build,
    CloneBuild,
    BuildTwice,
}

fn apply_flag(b: &mut RegExpBuilder, f: u32) {
    match f {
        DIGIT => b.with_conversion_of_digits(),
        NDIGIT => b.with_conversion_of_non_digits(),
        SPACE => b.with_conversion_of_whitespace(),
        NSPACE => b.with_conversion_of_non_whitespace(),
        WORD => b.with_conversion_of_words(),
        NWORD => b.with_conversion_of_non_words(),
        REP => b.with_conversion_of_repetitions(),
        CI => b.with_case_insensitive_matching(),
        CAP => b.with_capturing_groups(),
        VERB => b.with_verbose_mode(),
        NOSTART => b.without_start_anchor(),
        NOEND => b.without_end_anchor(),
        COLOR => b.with_syntax_highlighting(),
        x if x == NOSTART | NOEND => b.without_anchors(),
        _ => b,
    };
}

/// Sequential model: a fresh builder over the sorted set of test cases with the accumulated settings.
fn model(tcs: &[String], s: Settings) -> Result<String, String> {
    let mut d: Vec<String> = tcs.to_vec();
    d.sort();
    d.dedup();
    build(&d, s)
}

/// A random builder history: the list handed to the builder (permuted, with duplicates) and the calls.
pub fn gen_history(rng: &mut Rng, tcs: &[String]) -> (Vec<String>, Vec<Op>) {
    let mut list: Vec<String> = tcs.to_vec();
    for _ in 0..rng.below(3) {
        let x = rng.pick(tcs).clone();
        list.push(x);
    }
    rng.shuffle(&mut list);
    let n_ops = 2 + rng.below(10);
    let flags = [DIGIT, NDIGIT, SPACE, NSPACE, WORD, NWORD, REP, CI, CAP, VERB, NOSTART, NOEND, NOSTART | NOEND, COLOR];
    let mut ops: Vec<Op> = (0..n_ops)
        .map(|_| match rng.below(12) {
            0..=5 => Op::Flag(*rng.pick(&flags)),
            6 => Op::Esc(rng.chance(1, 2)),
            7 => Op::MinRep(1 + rng.below(4) as u32),
            8 => Op::MinLen(1 + rng.below(4) as u32),
            9 => Op::Build,
            10 => Op::CloneBuild,
            _ => Op::BuildTwice,
        })
        .collect();
    ops.push(Op::Build);
    (list, ops)
}

/// Executes a history on the real builder; returns (op index, accumulated settings, result) per build.
/// Panics propagate to the caller's catch_unwind.
pub fn exec_history(list: &[String], ops: &[Op]) -> Vec<(usize, Settings, String, Option<String>)> {
    let mut acc = Settings::new(0);
    let mut b = RegExpBuilder::from(list);
    let mut out = vec![];
    for (k, op) in ops.iter().enumerate() {
        match op {
            Op::Flag(f) => {
                apply_flag(&mut b, *f);
                acc.flags |= f;
            }
            Op::Esc(sur) => {
                b.with_escaping_of_non_ascii_chars(*sur);
                acc.flags |= ESC;
                acc.flags = if *sur { acc.flags | SURR } else { acc.flags & !SURR };
            }
            Op::MinRep(v) => {
                b.with_minimum_repetitions(*v);
                acc.min_rep = *v;
            }
            Op::MinLen(v) => {
                b.with_minimum_substring_length(*v);
                acc.min_len = *v;
            }
            Op::Build => out.push((k, acc, b.build(), None)),
            Op::CloneBuild => out.push((k, acc, b.clone().build(), None)),
            Op::BuildTwice => {
                let a = b.build();
                let c = b.build();
                out.push((k, acc, c, Some(a)));
            }
        }
    }
    out
}

fn history_case(st: &mut Stats, rng: &mut Rng, tcs: &[String]) {
    let (list, ops) = gen_history(rng, tcs);
    st.evaluations += 1;
    let r = catch_unwind(AssertUnwindSafe(|| {
        let mut problems: Vec<String> = vec![];
        let results = exec_history(&list, &ops);
        let builds = results.len();
        for (k, acc, got, first_of_two) in results {
            if let Some(a) = first_of_two {
                if a != got {
                    problems.push(format!("op {k}: two consecutive build() calls differ: {a:?} vs {got:?}"));
                }
            }
            match model(tcs, acc) {
                Ok(want) if want == got => {}
                Ok(want) => problems.push(format!("op {k} ({:?}): history gives {got:?}, a fresh builder with the accumulated settings {:?} gives {want:?}", ops[k], acc.names())),
                Err(p) => problems.push(format!("model build panicked: {p}")),
            }
        }
        (problems, builds)
    }));
    match r {
        Err(_) => st.inconclusive(&format!("history panicked ({}); C07's concern", take_panic())),
        Ok((problems, builds)) => {
            st.decided += 1;
            st.add("history_builds", builds as u64);
            st.count("histories");
            let mut h = std::collections::hash_map::DefaultHasher::new();
            use std::hash::{Hash, Hasher};
            format!("{ops:?}{list:?}").hash(&mut h);
            st.distinct.insert(h.finish());
            if !problems.is_empty() {
                st.violation("history_dependence", problems.join(" | "), json!({"test_cases": tcs, "list": list, "ops": format!("{ops:?}")}));
            } else {
                st.sample(json!({"list": list, "ops": format!("{ops:?}"), "verdict": "every build equals the sequential model"}));
            }
        }
    }
}

/// Same case built R times in this process: every HashSet/HashMap gets a fresh RandomState.
fn rebuild_case(st: &mut Stats, tcs: &[String], s: Settings, r: usize, rng: &mut Rng) {
    st.evaluations += 1;
    let first = model(tcs, s);
    let mut outs = HashSet::new();
    for k in 0..r {
        let mut list = tcs.to_vec();
        if k % 2 == 1 {
            rng.shuffle(&mut list);
            let x = list[0].clone();
            list.push(x);
        }
        outs.insert(format!("{:?}", build(&list, s)));
    }
    outs.insert(format!("{first:?}"));
    st.decided += 1;
    st.add("in_process_rebuilds", r as u64);
    if gen::nontrivial(tcs) {
        st.distinct.insert(gen::hash_case(tcs, s));
    }
    if outs.len() != 1 {
        st.violation("nondeterministic_rebuild", format!("{} different results for the same set of test cases and settings: {:?}", outs.len(), outs.iter().take(3).collect::<Vec<_>>()), case_json(tcs, s));
    }
}

/// The fixed batch of cases used for the cross-process and cross-thread comparisons.
pub fn batch(seed: u64, n: usize) -> Vec<(Vec<String>, Settings)> {
    let alphabets: Vec<Vec<String>> = ["ab", "abc", "mixed", "classes", "case", "graph", "sigma"].iter().map(|a| gen::alphabet(a)).collect();
    (0..n)
        .map(|i| {
            let mut rng = Rng::new(seed, 0x100_0000 + i as u64);
            let al = &alphabets[i % alphabets.len()];
            let tcs = match i % 4 {
                0 | 1 => gen::uniform_small(&mut rng, &["a", "b"]),
                2 => gen::repeat_family(&mut rng, al),
                _ => gen::family(&mut rng, al),
            };
            let mut s = if i % 4 <= 1 { Settings::new(REP) } else { gen::settings(&mut rng, ALL_FLAGS & !(SURR)) };
            if i % 2 == 0 {
                s.flags |= REP;
            }
            if i % 3 == 0 {
                s.flags |= if i % 2 == 0 { WORD } else { NSPACE | DIGIT };
            }
            let tcs: Vec<String> = if s.flags & CLASS_MASK != 0 && s.flags & NOEND != 0 { tcs.into_iter().map(|t| t.chars().take(10).collect()).collect() } else { tcs };
            (tcs, s)
        })
        .chain(
            // letters whose lower-casing depends on their position (final sigma) or that have several spellings:
            // every process meets them in another order
            [
                vec!["\u{39f}\u{394}\u{39f}\u{3a3}"],
                vec!["\u{3a3}\u{39f}\u{3a6}\u{399}\u{391}"],
                vec!["a\u{3a3}", "\u{3a3}a"],
                vec!["\u{3a3}a", "a\u{3a3}", "\u{3a3}"],
                vec!["\u{3a3}"],
                vec!["A\u{3a3} \u{3a3}A"],
                vec!["\u{130}", "I", "i\u{307}"],
                vec!["\u{1e9e}\u{df}", "SS"],
            ]
            .into_iter()
            .flat_map(|t| {
                let t: Vec<String> = t.into_iter().map(String::from).collect();
                [(t.clone(), Settings::new(CI)), (t.clone(), Settings::new(CI | VERB | NOEND)), (t, Settings::new(0))]
            }),
        )
        .collect()
}

/// Child mode `__c10_child <seed> <n> <threads>`: prints one JSON array of results.
/// With threads > 1 all threads start behind a barrier so that the first use of grex's lazily
/// initialised tables is raced on purpose.
pub fn child_main(seed: u64, n: usize, threads: usize) -> i32 {
    install_quiet_panic_hook();
    let cases = batch(seed, n);
    // every child builds the batch in its own order (process-wide state filled in another order)
    let order_seed: u64 = std::env::args().nth(5).and_then(|s| s.parse().ok()).unwrap_or(0);
    let results: Vec<String> = if threads <= 1 {
        let mut order: Vec<usize> = (0..cases.len()).collect();
        if order_seed % 3 == 2 {
            order.reverse();
        } else if order_seed > 0 {
            Rng::new(order_seed, 0x108_0000).shuffle(&mut order);
        }
        let mut out = vec![String::new(); cases.len()];
        for i in order {
            out[i] = format!("{:?}", build(&cases[i].0, cases[i].1));
        }
        out
    } else {
        let barrier = std::sync::Barrier::new(threads);
        let out = std::sync::Mutex::new(vec![String::new(); cases.len()]);
        std::thread::scope(|sc| {
            for th in 0..threads {
                let (cases, barrier, out) = (&cases, &barrier, &out);
                sc.spawn(move || {
                    install_quiet_panic_hook();
                    barrier.wait();
                    // overlapping: every case is built by two different threads
                    for i in (0..cases.len()).filter(|i| i % threads == th || (i + 1) % threads == th) {
                        let r = format!("{:?}", build(&cases[i].0, cases[i].1));
                        let mut o = out.lock().unwrap();
                        if o[i].is_empty() {
                            o[i] = r;
                        } else if o[i] != r {
                            o[i] = format!("THREADS-DISAGREE {} vs {}", o[i], r);
                        }
                    }
                });
            }
        });
        out.into_inner().unwrap()
    };
    println!("{}", json!(results));
    0
}

/// State carried from one build to the next on the same thread: the same batch is built on three fresh
/// threads in forward, reverse and six shuffled orders; every case must give the same result each time.
fn build_order_independence(ctx: &Ctx, st: &mut Stats) {
    let mut cases: Vec<(Vec<String>, Settings)> = batch(ctx.seed() ^ 0x55, if ctx.thorough { 4000 } else { 600 });
    for set in gen::shifted_run_sets() {
        cases.push((set.clone(), Settings::new(0)));
        cases.push((set, Settings::new(ESC)));
    }
    let n = cases.len();
    let mut orders: Vec<Vec<usize>> = vec![(0..n).collect(), (0..n).rev().collect()];
    for k in 0..6 {
        let mut o: Vec<usize> = (0..n).collect();
        Rng::new(ctx.seed(), 0x106_0000 + k).shuffle(&mut o);
        orders.push(o);
    }
    // one fresh thread per order, all at once
    let results: Vec<Vec<String>> = std::thread::scope(|sc| {
        let handles: Vec<_> = orders
            .iter()
            .map(|order| {
                let cases = &cases;
                sc.spawn(move || {
                    install_quiet_panic_hook();
                    let mut out = vec![String::new(); cases.len()];
                    for &i in order {
                        out[i] = format!("{:?}", build(&cases[i].0, cases[i].1));
                    }
                    out
                })
            })
            .collect();
        handles.into_iter().map(|h| h.join().unwrap_or_default()).collect()
    });
    for i in 0..n {
        st.evaluations += 1;
        st.decided += 1;
        st.count("build_order_comparisons");
        let distinct: std::collections::BTreeSet<&String> = results.iter().filter_map(|r| r.get(i)).collect();
        if distinct.len() > 1 {
            let mut case = case_json(&cases[i].0, cases[i].1);
            case["what"] = json!("build_order");
            st.violation(
                "depends_on_earlier_builds_on_the_thread",
                format!("the same case gives {} different results depending on which builds ran before it on the thread: {:?}", distinct.len(), distinct.iter().take(2).collect::<Vec<_>>()),
                case,
            );
        }
    }
}

/// Caches keyed by too little: the same test cases are built with one setting toggled and then with the
/// settings under test, back to back on the same thread; the second result must equal the one obtained on
/// a fresh thread that never saw the neighbouring settings.
fn neighbouring_settings_case(st: &mut Stats, tcs: &[String], s: Settings, flag: u32) {
    st.evaluations += 1;
    let fresh = std::thread::scope(|sc| {
        sc.spawn(|| {
            install_quiet_panic_hook();
            build(tcs, s)
        })
        .join()
        .unwrap_or_else(|_| Err("thread".into()))
    });
    let neighbour = Settings { flags: s.flags ^ flag, ..s }.normalised();
    let _ = build(tcs, neighbour);
    let after = build(tcs, s);
    st.decided += 1;
    st.count("neighbouring_settings_pairs");
    if fresh != after {
        let mut case = case_json(tcs, s);
        case["what"] = json!("neighbouring_settings");
        case["built_just_before"] = neighbour.to_json();
        st.violation(
            "depends_on_earlier_builds_on_the_thread",
            format!("after building the same test cases with {:?}, build() gives {:?}; on a fresh thread it gives {:?}", neighbour.names(), after, fresh),
            case,
        );
    }
}

fn cross_process(ctx: &Ctx, st: &mut Stats) {
    let exe = std::env::current_exe().unwrap();
    let n = if ctx.thorough { 40_000 } else { 2_500 };
    let procs = if ctx.thorough { 32 } else { 6 };
    let cases = batch(ctx.seed(), n);
    let reference: Vec<String> = {
        let out = std::sync::Mutex::new(vec![String::new(); cases.len()]);
        let tmp_run = Run::new("C10", "quick", 0, "exploration");
        par_for(&tmp_run, cases.len(), |i, _| {
            let r = format!("{:?}", build(&cases[i].0, cases[i].1));
            out.lock().unwrap()[i] = r;
        });
        out.into_inner().unwrap()
    };
    let mut children = vec![];
    for p in 0..procs {
        // half of the children run 16 threads behind a barrier
        let threads = if p % 2 == 0 { 1 } else { 16 };
        // every child gets its own build order and, for every other one, a different process environment
        let mut cmd = Command::new(&exe);
        cmd.args(["__c10_child", &ctx.seed().to_string(), &n.to_string(), &threads.to_string(), &p.to_string()]).stdout(Stdio::piped()).stderr(Stdio::null());
        match p % 4 {
            1 => {
                cmd.env("NO_COLOR", "1").env("TERM", "dumb").env("LC_ALL", "C");
            }
            2 => {
                cmd.env("LC_ALL", "tr_TR.UTF-8").env("LANG", "tr_TR.UTF-8").env("CLICOLOR_FORCE", "1");
            }
            3 => {
                cmd.env_remove("HOME").env("COLUMNS", "12").env("RUST_BACKTRACE", "full").current_dir("/");
            }
            _ => {}
        }
        children.push((threads, cmd.spawn()));
    }
    for (threads, ch) in children {
        let Ok(ch) = ch else {
            st.inconclusive("spawn failed");
            continue;
        };
        let Ok(o) = ch.wait_with_output() else {
            st.inconclusive("child failed");
            continue;
        };
        let Ok(v) = serde_json::from_slice::<Vec<String>>(&o.stdout) else {
            st.inconclusive(&format!("child produced no result (exit {:?})", o.status.code()));
            continue;
        };
        st.count(if threads > 1 { "child_processes_16_threads" } else { "child_processes_single_thread" });
        for (i, r) in v.iter().enumerate() {
            st.evaluations += 1;
            st.decided += 1;
            st.count("cross_process_comparisons");
            if *r != reference[i] {
                let (tcs, s) = &cases[i];
                let mut case = case_json(tcs, *s);
                case["what"] = json!("cross_process");
                case["threads"] = json!(threads);
                st.violation(
                    if threads > 1 { "thread_dependence" } else { "process_dependence" },
                    format!("a separate process ({} thread(s)) returns {} but this process returns {}", threads, r, reference[i]),
                    case,
                );
            }
        }
    }
}

pub fn replay(_ctx: &Ctx, case: &Value) {
    let mut st = Stats::new();
    let (tcs, s) = case_from_json(case);
    if !tcs.is_empty() {
        let mut rng = Rng::new(1, 1);
        rebuild_case(&mut st, &tcs, s, 64, &mut rng);
    }
    _ctx.run.merge(st);
}

pub fn run(ctx: &Ctx) -> i32 {
    let seed = ctx.seed();
    let alphabets: Vec<Vec<String>> = ["ab", "abc", "mixed", "classes", "case", "graph", "meta"].iter().map(|a| gen::alphabet(a)).collect();
    // 1. histories against the sequential model
    let n = if ctx.thorough { 120_000 } else { 8_000 };
    par_for(&ctx.run, n, |i, st| {
        let mut rng = Rng::new(seed, 0x101_0000 + i as u64);
        let al = &alphabets[i % alphabets.len()];
        let tcs = if rng.chance(1, 3) { gen::repeat_family(&mut rng, al) } else { gen::family(&mut rng, al) };
        let tcs: Vec<String> = tcs.into_iter().map(|t| t.chars().take(12).collect()).collect();
        history_case(st, &mut rng, &tcs);
    });
    if std::env::var("VERIF_TIMING").is_ok() { eprintln!("[timing] c10.rs block 1: {:.1}s", ctx.run.started.elapsed().as_secs_f64()); }
    // 2. hash-seed independence in process: R rebuilds, emphasis on repetition settings
    let n = if ctx.thorough { 60_000 } else { 3_000 };
    let r = if ctx.thorough { 64 } else { 5 };
    par_for(&ctx.run, n, |i, st| {
        let mut rng = Rng::new(seed, 0x102_0000 + i as u64);
        let al = &alphabets[i % 3];
        let tcs = if rng.chance(2, 3) { gen::repeat_family(&mut rng, al) } else { gen::family(&mut rng, al) };
        let mut s = gen::settings(&mut rng, REP | CI | CAP | VERB | NOSTART | NOEND | DIGIT | NWORD);
        if i % 4 != 0 {
            s.flags |= REP;
        }
        rebuild_case(st, &tcs, s, r, &mut rng);
    });
    if std::env::var("VERIF_TIMING").is_ok() { eprintln!("[timing] c10.rs block 2: {:.1}s", ctx.run.started.elapsed().as_secs_f64()); }
    // uniformly random words over {a,b} / {a,b,c} with repetition conversion: the shape on which the
    // minimiser's hash-order dependence (D14) shows about once in 3000 sets
    let n = if ctx.thorough { 1_500_000 } else { 90_000 };
    par_for(&ctx.run, n, |i, st| {
        let mut rng = Rng::new(seed, 0x104_0000 + i as u64);
        let tcs = gen::uniform_small(&mut rng, if i % 3 == 0 { &["a", "b", "c"] } else { &["a", "b"] });
        st.count("uniform_small_words");
        rebuild_case(st, &tcs, Settings::new(REP | if i % 5 == 0 { NOEND } else { 0 }), 4, &mut rng);
    });
    if std::env::var("VERIF_TIMING").is_ok() { eprintln!("[timing] c10.rs block 3: {:.1}s", ctx.run.started.elapsed().as_secs_f64()); }
    // medium-sized inputs (many test cases / long test cases): size-dependent code paths
    let n = if ctx.thorough { 20_000 } else { 300 };
    par_for(&ctx.run, n, |i, st| {
        let mut rng = Rng::new(seed, 0x105_0000 + i as u64);
        let al = &alphabets[i % alphabets.len()];
        let tcs: Vec<String> = gen::medium_family(&mut rng, al).into_iter().filter(|t| !t.is_empty()).collect();
        if tcs.is_empty() {
            return;
        }
        st.count("medium_sized_rebuilds");
        let s = Settings::new(if i % 2 == 0 { REP } else { 0 } | if i % 5 == 0 { CI } else { 0 } | if i % 7 == 0 { NOEND } else { 0 });
        rebuild_case(st, &tcs, s, 3, &mut rng);
    });
    if std::env::var("VERIF_TIMING").is_ok() { eprintln!("[timing] c10.rs block 4: {:.1}s", ctx.run.started.elapsed().as_secs_f64()); }
    // neighbouring settings back to back on one thread (every flag toggled) over fold-orbit, class and plain alphabets
    {
        let n = if ctx.thorough { 60_000 } else { 3_000 };
        let als: Vec<Vec<String>> = ["sigma_lower", "sigma", "classes", "ab", "mixed", "sigma_lower", "astral"].iter().map(|a| gen::alphabet(a)).collect();
        par_for(&ctx.run, n, |i, st| {
            let mut rng = Rng::new(seed, 0x107_0000 + i as u64);
            let tcs = gen::family(&mut rng, &als[i % als.len()]);
            let tcs: Vec<String> = tcs.into_iter().map(|t| t.chars().take(8).collect()).collect();
            let mut s = gen::settings(&mut rng, ALL_FLAGS & !SURR);
            if i % 2 == 0 {
                s.flags |= NOEND;
            }
            let flag = 1u32 << rng.below(15);
            if flag == SURR {
                return;
            }
            neighbouring_settings_case(st, &tcs, s.normalised(), flag);
        });
    }
    // the same, with one long test case (size-dependent caches): 300 ... 1100 graphemes, repetition conversion on
    {
        let lens: &[usize] = if ctx.thorough { &[260, 300, 520, 700, 1030, 1100] } else { &[300, 520, 1030] };
        let toggles: &[u32] = if ctx.thorough { &[CAP, VERB, COLOR, CI, NOEND] } else { &[CAP, VERB, COLOR] };
        let n = lens.len() * toggles.len();
        par_for(&ctx.run, n, |i, st| {
            let len = lens[i % lens.len()];
            let flag = toggles[i / lens.len()];
            let tc = format!("{}{}", "ab".repeat(len / 2), gen::boundary_case(i % gen::JUNCTIONS.len(), 40, 0, 5));
            st.count("long_neighbouring_settings_pairs");
            neighbouring_settings_case(st, &[tc], Settings::new(REP | if i % 2 == 0 { 0 } else { NOSTART }).normalised(), flag);
        });
    }
    // prefixes that fold into shared trie states (edge insertion order inside one equivalence class)
    {
        let n = if ctx.thorough { 600_000 } else { 60_000 };
        par_for(&ctx.run, n, |i, st| {
            let mut rng = Rng::new(seed, 0x10a_0000 + i as u64);
            let tcs = gen::merged_prefix_family(&mut rng, if i % 2 == 0 { &["a", "b"] } else { &["a", "b", "c"] });
            st.count("merged_prefix_families");
            rebuild_case(st, &tcs, Settings::new(REP), 3, &mut rng);
        });
    }
    // prefixes followed by different sets of repeat counts, with continuations (class representatives / edge order)
    {
        let cs = gen::count_set_cases();
        par_for(&ctx.run, cs.len(), |i, st| {
            let mut rng = Rng::new(seed, 0x109_0000 + i as u64);
            st.count("count_set_cases");
            rebuild_case(st, &cs[i], Settings::new(REP), 4, &mut rng);
            let with_tail: Vec<String> = cs[i].iter().enumerate().map(|(k, t)| format!("{t}{}", ["b", "bb", "", "ab"][k % 4])).collect();
            rebuild_case(st, &with_tail, Settings::new(REP), 4, &mut rng);
        });
    }
    // exhaustive small sets with repetition conversion: all permutations of up to 4 words
    let words: Vec<String> = gen::words(&["a", "b"], 3).into_iter().filter(|w| !w.is_empty()).collect();
    let subs = gen::subsets(words.len(), 3);
    par_for(&ctx.run, subs.len(), |i, st| {
        let tcs = gen::pick_subset(&words, subs[i]);
        let mut rng = Rng::new(seed, 0x103_0000 + i as u64);
        st.count("exhaustive_ab3_permutations");
        rebuild_case(st, &tcs, Settings::new(REP), 6, &mut rng);
        rebuild_case(st, &tcs, Settings::new(0), 6, &mut rng);
    });
    if std::env::var("VERIF_TIMING").is_ok() { eprintln!("[timing] c10.rs block 5: {:.1}s", ctx.run.started.elapsed().as_secs_f64()); }
    // 3. separate processes (fresh hash seeds) and 16 racing threads
    {
        let mut st = Stats::new();
        cross_process(ctx, &mut st);
        build_order_independence(ctx, &mut st);
        ctx.run.merge(st);
    }
    let extra = if ctx.thorough { crate::sanitize::c10_legs(ctx) } else { json!({"tsan_leg": "thorough tier only", "miri_leg": "thorough tier only"}) };
    ctx.run.finish(
        "cases = random builder histories (setters in any order with repeats, without_anchors vs the two single anchor setters, escaping with both surrogate values, thresholds, interleaved build(), build() twice, clone().build()) over permuted lists with duplicates, checked after every build against the sequential model; the same case rebuilt 8 (quick) / 64 (thorough) times in process with shuffled/duplicated lists (fresh RandomState for every HashSet/HashMap), emphasis on repetition settings; all subsets of size <=3 of {a,b}^<=3 with and without repetition; a fixed batch of cases rebuilt in 6/32 separate processes (fresh per-process hash seeds), half of them with 16 threads released by a barrier so that the first use of the lazily initialised class tables is raced; thorough adds ThreadSanitizer and Miri (many schedule seeds) runs; non-trivial = distinct histories / distinct non-trivial cases",
        "string equality of build() results: history vs a fresh builder with the accumulated settings (flags = union, thresholds and the surrogate boolean = last write); rebuild vs rebuild; child process vs parent; thread vs thread",
        &["schedules are sampled by the OS scheduler (and by Miri seeds in the thorough tier), not enumerated"],
        extra,
        false,
    )
}
