//! Stage attribution: compares the languages of consecutive pipeline stages of one real build()
//! execution (spec -> clusters -> trie -> minimised -> expression -> final expression -> output)
//! and names the stage(s) where the language changed. Differences that match the executable
//! model of a listed known defect carry that finding's id.
use crate::cfg::*;
use crate::oracle::{self, Cmp};
use crate::stages::*;

pub const PATH_CAP: usize = 4000;

#[derive(Debug, Clone)]
pub struct StageDiff {
    pub from: &'static str,
    pub to: &'static str,
    pub witness: String,
    pub to_accepts: bool,
    pub known: Option<&'static str>,
    /// false when the self-check fallback rebuilt the result from an earlier stage, so this stage's
    /// language change did not reach the output
    pub on_path: bool,
    pub from_pat: String,
    pub to_pat: String,
}

#[derive(Debug, Default)]
pub struct StageReport {
    pub diffs: Vec<StageDiff>,
    pub inconclusive: Vec<String>,
    pub invalid: Vec<String>,
    pub comparisons: usize,
    pub missing_events: bool,
}

impl StageReport {
    pub fn clean(&self) -> bool {
        self.inconclusive.is_empty() && self.invalid.is_empty() && !self.missing_events
    }
    pub fn known_ids(&self) -> Vec<&'static str> {
        let mut v: Vec<&'static str> = self.diffs.iter().filter(|d| d.on_path).filter_map(|d| d.known).collect();
        v.sort();
        v.dedup();
        v
    }
    pub fn summary(&self) -> String {
        self.diffs
            .iter()
            .map(|d| format!("{}->{}:{}{:?}{}{}", d.from, d.to, if d.to_accepts { "+" } else { "-" }, d.witness, d.known.map(|k| format!("[{k}]")).unwrap_or_default(), if d.on_path { "" } else { "(bypassed)" }))
            .collect::<Vec<_>>()
            .join(" ")
    }
}

fn ci(p: String, s: Settings) -> String {
    if s.has(CI) {
        format!("(?i){p}")
    } else {
        p
    }
}

/// `out` is the real build() result, `spec_pat` the independent specification pattern.
pub fn analyse(t: &Trace, s: Settings, out: &str, spec_pat: &str) -> StageReport {
    let mut r = StageReport::default();
    let (Some(clusters), Some(trie), Some(min), Some(expr), Some(final_expr)) = (&t.clusters, &t.trie, &t.min, &t.expr, &t.final_expr) else {
        r.missing_events = true;
        return r;
    };
    let p_clusters = ci(clusters_pattern(clusters, false), s);
    let p_nested = ci(clusters_pattern(clusters, true), s);
    let p_trie = snapshot_pattern(trie, PATH_CAP).map(|p| ci(p, s));
    let p_min = snapshot_pattern(min, PATH_CAP).map(|p| ci(p, s));
    let printable = !s.has(VERB) && !s.has(COLOR) && !s.has(SURR);
    let p_expr = if printable { Some(ci(format!("^(?:{expr})$"), s)) } else { None };
    let p_final = if printable { Some(ci(format!("^(?:{final_expr})$"), s)) } else { None };
    let p_out = if !s.has(COLOR) && !s.has(SURR) { Some(wrap_full(out, s)) } else { None };

    let cmp = |from: &'static str, a: &str, to: &'static str, b: &str, r: &mut StageReport| -> Option<(String, bool)> {
        r.comparisons += 1;
        match oracle::compare(a, b) {
            Cmp::Equal => None,
            Cmp::Differ { witness, left_accepts } => Some((witness, !left_accepts)),
            Cmp::Inconclusive(e) => {
                r.inconclusive.push(format!("{from}->{to}: {e}"));
                None
            }
            Cmp::Invalid { left, err } => {
                r.invalid.push(format!("{} is not a valid pattern: {err}", if left { from } else { to }));
                None
            }
        }
    };
    let alt = t.branches.contains(&"alternation");
    let unmin = t.branches.contains(&"unminimized");
    let push = |r: &mut StageReport, from: &'static str, to: &'static str, w: (String, bool), known, a: &str, b: &str| {
        let on_path = match to {
            "trie" => !alt,
            "min" | "expr" => !alt && !unmin,
            _ => true,
        };
        r.diffs.push(StageDiff { from, to, witness: w.0, to_accepts: w.1, known, on_path, from_pat: a.to_string(), to_pat: b.to_string() });
    };

    // spec -> clusters (case conversion, sorting, grapheme splitting, class conversion, repetition detection)
    if let Some(w) = cmp("spec", spec_pat, "clusters", &p_clusters, &mut r) {
        push(&mut r, "spec", "clusters", w, None, spec_pat, &p_clusters);
    }
    // flat clusters -> nested rendering of repeated units
    if s.has(REP) {
        if let Some(w) = cmp("clusters", &p_clusters, "clusters_nested", &p_nested, &mut r) {
            push(&mut r, "clusters", "clusters_nested", w, None, &p_clusters, &p_nested);
        }
    }
    // clusters -> trie
    let Some(p_trie) = p_trie else {
        r.inconclusive.push("trie path cap".into());
        return r;
    };
    if let Some(w) = cmp("clusters", &p_clusters, "trie", &p_trie, &mut r) {
        // known defect D3: does the trie equal the model that applies exactly the defective rule?
        let mut known = None;
        if s.has(REP) {
            if let Some(model) = d3_model_pattern(clusters, PATH_CAP) {
                let model = ci(model, s);
                r.comparisons += 1;
                if matches!(oracle::compare(&p_trie, &model), Cmp::Equal) {
                    known = Some("KF-D3");
                }
            }
        }
        push(&mut r, "clusters", "trie", w, known, &p_clusters, &p_trie);
    }
    // trie -> min
    let Some(p_min) = p_min else {
        r.inconclusive.push("min path cap".into());
        return r;
    };
    if let Some(w) = cmp("trie", &p_trie, "min", &p_min, &mut r) {
        let mut known = None;
        if d1_signature(t) && w.0.is_empty() && !w.1 {
            let mut tr = trie.clone();
            tr.finals.retain(|f| *f != tr.start);
            if let Some(p) = snapshot_pattern(&tr, PATH_CAP) {
                r.comparisons += 1;
                if matches!(oracle::compare(&ci(p, s), &p_min), Cmp::Equal) {
                    known = Some("KF-D1");
                }
            }
        }
        push(&mut r, "trie", "min", w, known, &p_trie, &p_min);
    }
    // min -> expr. With D1 and T = {""} the minimised automaton has no accepting state at all and
    // Expression::from falls back to the empty literal; that compensation is part of the D1 finding
    // already recorded for trie -> min, so downstream stages are compared with what the fallback yields.
    let p_min_eff = if d1_signature(t) && min.finals.is_empty() { ci("^(?:)$".to_string(), s) } else { p_min.clone() };
    let mut last: (&'static str, String) = ("min", p_min_eff.clone());
    if let Some(p_expr) = &p_expr {
        if let Some(w) = cmp("min", &p_min_eff, "expr", p_expr, &mut r) {
            push(&mut r, "min", "expr", w, None, &p_min_eff, p_expr);
        }
        last = ("expr", p_expr.clone());
    }
    // expr -> final expr: the self-check may have rotated alternatives (same language), rebuilt from
    // the un-minimised trie (language of the trie) or fallen back to the plain alternation (clusters).
    if let Some(p_final) = &p_final {
        let (from, base): (&'static str, &String) = if t.branches.contains(&"alternation") {
            ("clusters", &p_clusters)
        } else if t.branches.contains(&"unminimized") {
            ("trie", &p_trie)
        } else {
            (last.0, &last.1)
        };
        if let Some(w) = cmp(from, base, "final_expr", p_final, &mut r) {
            push(&mut r, from, "final_expr", w, None, base, p_final);
        }
        last = ("final_expr", p_final.clone());
    } else if !t.branches.is_empty() {
        // not printable: re-anchor the comparison of the output on the stage the fallback used
        last = if t.branches.contains(&"alternation") { ("clusters", p_clusters.clone()) } else { ("trie", p_trie.clone()) };
    }
    // -> output
    if let Some(p_out) = &p_out {
        if let Some(w) = cmp(last.0, &last.1, "out", p_out, &mut r) {
            push(&mut r, last.0, "out", w, None, &last.1, p_out);
        }
    }
    r
}
