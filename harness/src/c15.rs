//! C15 — syntax highlighting only adds colour codes: deleting SGR sequences from the coloured
//! output yields exactly the plain output.
use crate::cfg::*;
use crate::e2e::Ctx;
use crate::gen::{self, Rng};
use crate::report::*;
use serde_json::json;

/// Length of an SGR sequence `ESC [ digits (; digits)* m` starting at `i`, if any.
fn sgr_len(c: &[char], i: usize) -> Option<usize> {
    if c.get(i) != Some(&'\u{1b}') || c.get(i + 1) != Some(&'[') {
        return None;
    }
    let mut j = i + 2;
    let mut need_digit = true;
    loop {
        match c.get(j) {
            Some(d) if d.is_ascii_digit() => {
                need_digit = false;
                j += 1;
            }
            Some(';') if !need_digit => {
                need_digit = true;
                j += 1;
            }
            Some('m') if !need_digit => return Some(j + 1 - i),
            _ => return None,
        }
    }
}

/// Can `coloured` be turned into `plain` by deleting SGR sequences? (existential reading, so
/// literal text that looks like an SGR sequence can never cause a false alarm)
pub fn strips_to(coloured: &str, plain: &str) -> bool {
    // fast path: deleting every SGR-shaped sequence is one admissible deletion
    if naive_strip(coloured) == plain {
        return true;
    }
    let c: Vec<char> = coloured.chars().collect();
    let p: Vec<char> = plain.chars().collect();
    // reachable[j] = set of positions j in plain reachable at current i; iterate i forward
    let mut reach = vec![vec![false; p.len() + 1]; c.len() + 1];
    reach[0][0] = true;
    for i in 0..=c.len() {
        for j in 0..=p.len() {
            if !reach[i][j] {
                continue;
            }
            if i < c.len() && j < p.len() && c[i] == p[j] {
                reach[i + 1][j + 1] = true;
            }
            if let Some(l) = sgr_len(&c, i) {
                reach[i + l][j] = true;
            }
        }
    }
    reach[c.len()][p.len()]
}

pub fn naive_strip(coloured: &str) -> String {
    let c: Vec<char> = coloured.chars().collect();
    let mut out = String::new();
    let mut i = 0;
    while i < c.len() {
        if let Some(l) = sgr_len(&c, i) {
            i += l;
        } else {
            out.push(c[i]);
            i += 1;
        }
    }
    out
}

pub fn check_case(_ctx: &Ctx, st: &mut Stats, tcs: &[String], s: Settings) {
    st.evaluations += 1;
    let sp = s.without(COLOR);
    let sc = s.or(COLOR);
    let plain = build(tcs, sp);
    let coloured = build(tcs, sc);
    let (plain, coloured) = match (plain, coloured) {
        (Ok(p), Ok(c)) => (p, c),
        (Err(p), _) => {
            st.violation("panic", format!("plain build() panicked: {p}"), case_json(tcs, sp));
            return;
        }
        (_, Err(p)) => {
            st.violation("panic", format!("highlighted build() panicked: {p}"), case_json(tcs, sc));
            return;
        }
    };
    st.decided += 1;
    let n_sgr = coloured.matches("\u{1b}[").count();
    st.add("sgr_sequences_observed", n_sgr as u64);
    if n_sgr >= 2 && (tcs.len() >= 2 || s.flags & !COLOR != 0) {
        st.distinct.insert(gen::hash_case(tcs, sc));
    }
    let mut case = case_json(tcs, sc);
    case["plain"] = json!(plain);
    case["highlighted"] = json!(coloured);
    if !strips_to(&coloured, &plain) {
        case["highlighted_stripped"] = json!(naive_strip(&coloured));
        st.violation("stripped_output_differs", format!("removing SGR sequences from {:?} does not give {:?}", coloured, plain), case);
        return;
    }
    if !plain.contains('\u{1b}') {
        st.count("plain_without_esc");
        let stripped = naive_strip(&coloured);
        if stripped != plain {
            case["highlighted_stripped"] = json!(stripped);
            st.violation("stripped_output_differs", format!("naive strip gives {:?}, plain is {:?}", stripped, plain), case);
            return;
        }
    } else {
        st.count("plain_with_literal_esc");
    }
    if n_sgr == 0 {
        // nothing to colour (e.g. a single literal without anchors): legitimate, only counted
        st.count("highlighted_without_any_sgr");
    }
    st.sample(json!({"test_cases": tcs, "settings": sc.names(), "plain": plain, "highlighted": coloured}));
}

pub fn replay(ctx: &Ctx, case: &serde_json::Value) {
    let (tcs, s) = case_from_json(case);
    let mut st = Stats::new();
    check_case(ctx, &mut st, &tcs, s);
    ctx.run.merge(st);
}

pub const OTHER: u32 = ALL_FLAGS & !COLOR;

pub fn run(ctx: &Ctx) -> i32 {
    let seed = ctx.seed();
    // every flag combination (2^14 incl. surrogates) on rich fixed inputs
    let fixed: Vec<Vec<&str>> = vec![
        vec!["abé", "[m-^^^", "[10a", "💩💩💩"],
        vec!["I ♥♥♥ 36 and ٣ and 💩💩.", "I ♥ 36"],
        vec!["\u{1b}[0m", "\u{1b}[1;31mx", "a^b$", "(x)"],
        vec!["a", "ab", "abc", ""],
        vec!["aaa", "aaaa", "a b", "#1"],
    ];
    let lattice: Vec<u32> = (0..(1u32 << 14)).filter(|f| f & SURR == 0 || f & ESC != 0).collect();
    let step = if ctx.thorough { 1 } else { 5 };
    par_for(&ctx.run, fixed.len() * lattice.len() / step, |k, st| {
        let i = k * step + (seed as usize % step);
        let tcs: Vec<String> = fixed[i % fixed.len()].iter().map(|s| s.to_string()).collect();
        let f = lattice[(i / fixed.len()) % lattice.len()];
        st.count("lattice_on_fixed_inputs");
        check_case(ctx, st, &tcs, Settings::new(f));
    });
    // medium-sized inputs: many / long test cases, many distinct symbols, long repeats, deep prefix chains
    {
        let n = if ctx.thorough { 6000 } else { 400 };
        let names = ["sgr", "meta", "mixed", "ab"];
        let als: Vec<Vec<String>> = names.iter().map(|a| gen::alphabet(a)).collect();
        par_for(&ctx.run, n, |i, st| {
            let mut rng = Rng::new(seed, 0x151_0000 + i as u64);
            let tcs = gen::medium_family(&mut rng, &als[i % als.len()]);
            let tcs: Vec<String> = tcs.into_iter().filter(|t| !t.is_empty()).collect();
            if tcs.is_empty() {
                return;
            }
            st.count("medium_sized_inputs");
            let mut s = gen::settings(&mut rng, OTHER & !CLASS_MASK);
            if i % 2 == 0 {
                s.flags |= VERB;
            }
            check_case(ctx, st, &tcs, s);
        });
    }
    // thousands of short test cases (the highlighted text is several times longer than the plain one)
    {
        let sizes: Vec<usize> = if ctx.thorough { vec![1000, 3000, 5000, 8000, 12000] } else { vec![2500, 6000] };
        let al = gen::alphabet("abc");
        par_for(&ctx.run, sizes.len() * 3, |i, st| {
            let mut rng = Rng::new(seed, 0x152_0000 + i as u64);
            let k = sizes[i % sizes.len()];
            let sym: Vec<String> = "abcdefgh".chars().map(|c| c.to_string()).collect();
            let mut tcs: Vec<String> = (0..k).map(|_| (0..1 + rng.below(6)).map(|_| rng.pick(&sym).clone()).collect()).collect();
            tcs.extend(["zz", "zzzz", "zzzzzzz", "z"].iter().map(|s| s.to_string()));
            let _ = &al;
            let f = [REP | NOEND, NOSTART | NOEND, REP | NOEND | VERB][i / sizes.len()];
            st.count("large_inputs");
            check_case(ctx, st, &tcs, Settings::new(f));
        });
    }
    // an ESC followed by a character class whose members spell an SGR sequence ([0m], [1;3m] ...)
    {
        let tails = ["0", "m", "1", ";", "3", "z", "["];
        let mut cases: Vec<Vec<String>> = vec![];
        for (i, a) in tails.iter().enumerate() {
            for b in &tails[i + 1..] {
                cases.push(vec![format!("\u{1b}{a}"), format!("\u{1b}{b}")]);
                cases.push(vec![format!("key\u{1b}{a};"), format!("key\u{1b}{b};"), "key\u{1b}z;".to_string()]);
                cases.push(vec![format!("\u{1b}{a}x"), format!("\u{1b}{b}x"), format!("\u{1b}{a}")]);
            }
        }
        let fl = [NOEND, NOSTART | NOEND, VERB | NOEND, 0, REP | NOEND, CAP | NOSTART | NOEND];
        par_for(&ctx.run, cases.len() * fl.len(), |i, st| {
            st.count("esc_followed_by_class");
            check_case(ctx, st, &cases[i % cases.len()], Settings::new(fl[i / cases.len()]));
        });
    }
    let n = if ctx.thorough { 400_000 } else { 40_000 };
    let names = ["sgr", "meta", "mixed", "ws", "graph", "astral", "classes", "ab", "case"];
    let alphabets: Vec<(String, Vec<String>)> = names.iter().map(|a| (a.to_string(), gen::alphabet(a))).collect();
    par_for(&ctx.run, n, |i, st| {
        let mut rng = Rng::new(seed, 0x150_0000 + i as u64);
        let (name, al) = if i % 3 == 0 { &alphabets[0] } else { &alphabets[i % alphabets.len()] };
        let tcs = if rng.chance(1, 4) { gen::repeat_family(&mut rng, al) } else { gen::family(&mut rng, al) };
        let mut s = gen::settings(&mut rng, OTHER);
        if rng.chance(1, 2) {
            s.flags |= VERB;
        }
        st.count(&format!("random_{name}"));
        check_case(ctx, st, &tcs, s);
    });
    ctx.run.finish(
        "cases = the lattice of the 14 other boolean settings (every 5th point quick, all thorough) on 5 fixed rich inputs; structured random families over 9 alphabets (one third over ESC [ m digits ; so that literal text resembles SGR sequences) x random other settings with verbose mode in half of them; non-trivial = the highlighted output contains >=2 SGR sequences and (>=2 test cases or another setting is on); distinct by (set of test cases, settings)",
        "per execution: build() with and without with_syntax_highlighting(); a DP over (position in highlighted, position in plain) decides whether deleting SGR sequences ESC[digits(;digits)*m can yield the plain output; when the plain output has no ESC the naive strip must equal it exactly; the highlighted output must contain colour codes",
        &["SGR sequence grammar: ESC [ digits (; digits)* m"],
        json!({}),
        false,
    )
}
