//! E1 — exact language oracle: dense anchored DFAs from regex-automata and a product search.
use regex_automata::dfa::{dense, Automaton, StartKind};
use regex_automata::util::{primitives::StateID, start, syntax};
use regex_automata::Anchored;
use std::collections::{HashMap, VecDeque};

pub type Dfa = dense::DFA<Vec<u32>>;

#[derive(Debug, Clone)]
pub enum LangErr {
    /// The regex-syntax front end rejects the pattern.
    Syntax(String),
    /// A size limit was hit: inconclusive.
    TooBig(String),
}

pub const ORACLE_LIMIT: usize = 150 << 20;

pub fn lang(p: &str) -> Result<Dfa, LangErr> {
    lang_limit(p, ORACLE_LIMIT)
}

pub fn lang_limit(p: &str, limit: usize) -> Result<Dfa, LangErr> {
    // Decide "syntax error" with the real front end first so the classification never depends on
    // the wording of an error message.
    if let Err(e) = regex_syntax::ParserBuilder::new().nest_limit(5000).build().parse(p) {
        return Err(LangErr::Syntax(e.to_string()));
    }
    dense::Builder::new()
        .configure(
            dense::Config::new()
                .start_kind(StartKind::Anchored)
                .dfa_size_limit(Some(limit))
                .determinize_size_limit(Some(limit)),
        )
        .syntax(syntax::Config::new().unicode(true).utf8(true).nest_limit(5000))
        .thompson(regex_automata::nfa::thompson::Config::new().nfa_size_limit(Some(limit)))
        .build(p)
        .map_err(|e| LangErr::TooBig(e.to_string()))
}

/// Shortest string accepted by exactly one of the automata, and whether `a` is the one accepting.
pub fn diff(a: &Dfa, b: &Dfa) -> Option<(Vec<u8>, bool)> {
    let cfg = start::Config::new().anchored(Anchored::Yes);
    let sa = a.start_state(&cfg).unwrap();
    let sb = b.start_state(&cfg).unwrap();
    let mut seen: HashMap<(StateID, StateID), Option<((StateID, StateID), u8)>> = HashMap::new();
    let mut q = VecDeque::new();
    seen.insert((sa, sb), None);
    q.push_back((sa, sb));
    while let Some((x, y)) = q.pop_front() {
        let ma = a.is_match_state(a.next_eoi_state(x));
        let mb = b.is_match_state(b.next_eoi_state(y));
        if ma != mb {
            let mut path = vec![];
            let mut cur = (x, y);
            while let Some(Some((prev, byte))) = seen.get(&cur) {
                path.push(*byte);
                cur = *prev;
            }
            path.reverse();
            return Some((path, ma));
        }
        for byte in 0..=255u8 {
            let nx = a.next_state(x, byte);
            let ny = b.next_state(y, byte);
            if a.is_dead_state(nx) && b.is_dead_state(ny) {
                continue;
            }
            if let std::collections::hash_map::Entry::Vacant(e) = seen.entry((nx, ny)) {
                e.insert(Some(((x, y), byte)));
                q.push_back((nx, ny));
            }
        }
    }
    None
}

pub fn accepts(a: &Dfa, s: &[u8]) -> bool {
    let cfg = start::Config::new().anchored(Anchored::Yes);
    let mut st = a.start_state(&cfg).unwrap();
    for &b in s {
        st = a.next_state(st, b);
        if a.is_dead_state(st) {
            return false;
        }
    }
    a.is_match_state(a.next_eoi_state(st))
}

/// Number of DFA states (for evidence).
pub fn states(a: &Dfa) -> usize {
    a.memory_usage() / (a.stride() * 4).max(1)
}

#[derive(Debug, Clone)]
pub enum Cmp {
    Equal,
    /// A string on which the two patterns disagree, confirmed with the real regex engine.
    Differ { witness: String, left_accepts: bool },
    /// Could not be decided (size limit, oracle/engine disagreement); never a violation.
    Inconclusive(String),
    /// One side is not a valid pattern.
    Invalid { left: bool, err: String },
}

/// Compares two fully anchored patterns as languages and re-validates any witness
/// with `regex::Regex` on both patterns.
pub fn compare(left: &str, right: &str) -> Cmp {
    let a = match lang(left) {
        Ok(a) => a,
        Err(LangErr::Syntax(e)) => return Cmp::Invalid { left: true, err: e },
        Err(LangErr::TooBig(e)) => return Cmp::Inconclusive(format!("left too big: {e}")),
    };
    let b = match lang(right) {
        Ok(b) => b,
        Err(LangErr::Syntax(e)) => return Cmp::Invalid { left: false, err: e },
        Err(LangErr::TooBig(e)) => return Cmp::Inconclusive(format!("right too big: {e}")),
    };
    compare_dfa(&a, left, &b, right)
}

pub fn compare_dfa(a: &Dfa, left: &str, b: &Dfa, right: &str) -> Cmp {
    match diff(a, b) {
        None => Cmp::Equal,
        Some((w, left_accepts)) => match String::from_utf8(w) {
            Err(_) => Cmp::Inconclusive("witness not UTF-8".into()),
            Ok(witness) => match confirm(left, right, &witness, left_accepts) {
                Ok(()) => Cmp::Differ { witness, left_accepts },
                Err(e) => Cmp::Inconclusive(format!("oracle_disagree: {e}")),
            },
        },
    }
}

pub fn real_regex(p: &str) -> Result<regex::Regex, regex::Error> {
    regex::RegexBuilder::new(p).size_limit(256 << 20).dfa_size_limit(64 << 20).nest_limit(5000).build()
}

fn confirm(left: &str, right: &str, w: &str, left_accepts: bool) -> Result<(), String> {
    let l = real_regex(left).map_err(|e| format!("left: {e}"))?;
    let r = real_regex(right).map_err(|e| format!("right: {e}"))?;
    let (ml, mr) = (l.is_match(w), r.is_match(w));
    if ml == left_accepts && mr != left_accepts {
        Ok(())
    } else {
        Err(format!("engine says left={ml} right={mr}, oracle said left={left_accepts}"))
    }
}

/// Reference leftmost-first search (PikeVM, no prefilters or literal optimisations): the span of the
/// leftmost-first match of `pattern` in `haystack`. Used to arbitrate when the optimised engine
/// behind `regex::Regex` returns a span that its own semantics do not allow (regex 1.10.6 returns
/// 3..4 for `\daa|a` on FULLWIDTH DIGIT ONE + "aa").
pub fn reference_find(pattern: &str, haystack: &str) -> Option<Option<(usize, usize)>> {
    use regex_automata::nfa::thompson::pikevm::PikeVM;
    let vm = PikeVM::builder()
        .syntax(syntax::Config::new().unicode(true).utf8(true).nest_limit(5000))
        .thompson(regex_automata::nfa::thompson::Config::new().nfa_size_limit(Some(ORACLE_LIMIT)))
        .build(pattern)
        .ok()?;
    let mut cache = vm.create_cache();
    Some(vm.find(&mut cache, haystack).map(|m| (m.start(), m.end())))
}
