//! C16 — every pipeline stage preserves the language; minimisation is minimal.
//! Observed through the grex_verif event log of the real build() execution.
use crate::attrib;
use crate::cfg::*;
use crate::e2e::Ctx;
use crate::gen::{self, Rng};
use crate::report::*;
use crate::spec;
use crate::stages;
use serde_json::json;

pub fn check_case(ctx: &Ctx, st: &mut Stats, tcs: &[String], s: Settings) {
    st.evaluations += 1;
    let (res, ev) = build_ev(tcs, s);
    let out = match res {
        Ok(o) => o,
        Err(p) => {
            st.violation("panic", format!("build() panicked: {p}"), case_json(tcs, s));
            return;
        }
    };
    let t = stages::trace(&ev);
    let sp = spec::spec(&ctx.classes, tcs, s);
    let rep = attrib::analyse(&t, s, &out, &sp);
    st.add("stage_comparisons", rep.comparisons as u64);
    let mut case = case_json(tcs, s);
    case["output"] = json!(out);
    if rep.missing_events {
        st.violation("hook_events_missing", "the build produced no clusters / DFA snapshots / expression events".into(), case);
        return;
    }
    for e in &rep.inconclusive {
        st.inconclusive(e);
    }
    for e in &rep.invalid {
        st.violation("stage_pattern_invalid", e.clone(), case.clone());
    }
    for d in &rep.diffs {
        let mut c = case.clone();
        c["from_pattern"] = json!(d.from_pat);
        c["to_pattern"] = json!(d.to_pat);
        c["witness"] = json!(d.witness);
        ctx.run.classify(
            st,
            d.known,
            &format!("stage_{}_to_{}", d.from, d.to),
            format!("stage {} -> {} {} {:?}", d.from, d.to, if d.to_accepts { "starts accepting" } else { "stops accepting" }, d.witness),
            c,
        );
    }
    // structure of the automata
    if let (Some(trie), Some(min)) = (&t.trie, &t.min) {
        if !s.has(REP) {
            // trie: deterministic by construction when every edge is one symbol
            if let Some(ts) = stages::structure(trie) {
                if !ts.nondeterministic.is_empty() {
                    st.violation("trie_not_deterministic", ts.nondeterministic.join("; "), case.clone());
                }
            }
            match stages::structure(min) {
                None => st.violation("minimised_has_cycle", "minimised automaton is cyclic".into(), case.clone()),
                Some(ms) => {
                    st.count("minimality_checks");
                    st.add("min_states_total", ms.states as u64);
                    st.add("trie_states_total", trie.nodes.len() as u64);
                    if !ms.nondeterministic.is_empty() {
                        st.violation("minimised_not_deterministic", ms.nondeterministic.join("; "), case.clone());
                    }
                    if ms.unreachable > 0 {
                        st.violation("minimised_unreachable_state", format!("{} unreachable states", ms.unreachable), case.clone());
                    }
                    // with D1 the start state loses finality; if it was the only accepting state on some
                    // path nothing else changes, dead states can only appear for T = {""}
                    if ms.dead > 0 && !(stages::d1_signature(&t) && min.finals.is_empty()) {
                        st.violation("minimised_dead_state", format!("{} states cannot reach an accepting state", ms.dead), case.clone());
                    }
                    if ms.equivalent_pairs > 0 {
                        st.violation(
                            "minimised_not_minimal",
                            format!("{} state(s) share a right language with another state ({} states for a trie of {})", ms.equivalent_pairs, ms.states, trie.nodes.len()),
                            case.clone(),
                        );
                    }
                }
            }
        }
    }
    st.decided += 1;
    if gen::nontrivial(tcs) {
        st.distinct.insert(gen::hash_case(tcs, s));
    }
    if rep.diffs.is_empty() {
        st.sample(json!({"test_cases": tcs, "settings": s.names(), "output": out,
            "stages": {"clusters": t.clusters.as_ref().map(|c| stages::clusters_pattern(c, false)),
                       "trie_states": t.trie.as_ref().map(|x| x.nodes.len()), "min_states": t.min.as_ref().map(|x| x.nodes.len()),
                       "expr": t.expr, "branches": t.branches}, "verdict": "all stage languages equal"}));
    }
}


/// Every word accepted by an acyclic snapshot whose edges are single symbols (None above `cap` words or on a cycle).
fn accepted_words(s: &stages::Snapshot, cap: usize) -> Option<std::collections::BTreeSet<String>> {
    let mut adj: std::collections::HashMap<usize, Vec<(String, usize)>> = std::collections::HashMap::new();
    for (a, b, g) in &s.edges {
        if g.min != 1 || g.max != 1 {
            return None;
        }
        adj.entry(*a).or_default().push((g.chars.join(""), *b));
    }
    let finals: std::collections::HashSet<usize> = s.finals.iter().copied().collect();
    let mut out = std::collections::BTreeSet::new();
    let mut stack: Vec<(usize, String, usize)> = vec![(s.start, String::new(), 0)];
    let limit = s.nodes.len() + 1;
    while let Some((n, w, depth)) = stack.pop() {
        if depth > limit {
            return None;
        }
        if finals.contains(&n) {
            out.insert(w.clone());
            if out.len() > cap {
                return None;
            }
        }
        if let Some(es) = adj.get(&n) {
            for (l, t) in es {
                stack.push((*t, format!("{w}{l}"), depth + 1));
            }
        }
    }
    Some(out)
}

/// The words of a dense case: all words of length `len` over `sigma` (plus those of length len-3 when
/// `shorter`), without the words left out.
pub fn dense_words(spec: &serde_json::Value) -> (Vec<String>, Vec<String>) {
    let sigma: Vec<String> = spec["sigma"].as_array().map(|a| a.iter().filter_map(|v| v.as_str().map(String::from)).collect()).unwrap_or_default();
    let sig: Vec<&str> = sigma.iter().map(|x| x.as_str()).collect();
    let len = spec["len"].as_u64().unwrap_or(1) as usize;
    let shorter = spec["shorter"].as_bool().unwrap_or(false);
    let left: Vec<String> = spec["left_out"].as_array().map(|a| a.iter().filter_map(|v| v.as_str().map(String::from)).collect()).unwrap_or_default();
    let gone: std::collections::HashSet<&String> = left.iter().collect();
    let mut words = gen::words(&sig, len);
    words.retain(|w| (w.chars().count() == len || (shorter && w.chars().count() + 3 == len)) && !gone.contains(w));
    (words, left)
}

thread_local! {
    static DENSE_WANT: std::cell::RefCell<std::collections::BTreeSet<String>> = const { std::cell::RefCell::new(std::collections::BTreeSet::new()) };
    static DENSE_REPORT: std::cell::RefCell<serde_json::Value> = std::cell::RefCell::new(json!({"violations": [], "comparisons": 0}));
}

fn dense_violation(kind: &str, detail: String, witness: Option<String>) {
    DENSE_REPORT.with(|r| r.borrow_mut()["violations"].as_array_mut().unwrap().push(json!({"kind": kind, "detail": detail, "witness": witness})));
}

/// Invariant at the hook: runs when the automaton is recorded, i.e. before state elimination starts.
fn dense_observer(e: &grex::verif::Event) {
    let grex::verif::Event::Dfa { minimized, start, finals, nodes, edges } = e else { return };
    let snap = stages::Snapshot { start: *start, finals: finals.clone(), nodes: nodes.clone(), edges: edges.clone() };
    let name = if *minimized { "min" } else { "trie" };
    DENSE_REPORT.with(|r| r.borrow_mut()[format!("{name}_states")] = json!(nodes.len()));
    let want = DENSE_WANT.with(|w| w.borrow().clone());
    match accepted_words(&snap, want.len() + 1000) {
        Some(got) if got == want => DENSE_REPORT.with(|r| {
            let c = r.borrow()["comparisons"].as_u64().unwrap_or(0);
            r.borrow_mut()["comparisons"] = json!(c + 1);
        }),
        Some(got) => {
            let w = got.symmetric_difference(&want).next().cloned().unwrap_or_default();
            dense_violation(&format!("stage_spec_to_{name}"), format!("language of the {name} automaton differs from the test cases at {w:?}"), Some(w));
        }
        None => dense_violation(&format!("stage_spec_to_{name}"), format!("the {name} automaton is cyclic or accepts over 1000 words more than the test cases"), None),
    }
    if *minimized {
        match stages::structure(&snap) {
            None => dense_violation("minimised_has_cycle", "minimised automaton is cyclic".into(), None),
            Some(ms) => {
                if !ms.nondeterministic.is_empty() {
                    dense_violation("minimised_not_deterministic", ms.nondeterministic.iter().take(3).cloned().collect::<Vec<_>>().join("; "), None);
                }
                if ms.unreachable > 0 || ms.dead > 0 {
                    dense_violation("minimised_not_trim", format!("{} unreachable, {} dead states", ms.unreachable, ms.dead), None);
                }
                if ms.equivalent_pairs > 0 {
                    let trie = DENSE_REPORT.with(|r| r.borrow()["trie_states"].clone());
                    dense_violation("minimised_not_minimal", format!("{} state(s) share a right language with another state ({} states for a trie of {trie})", ms.equivalent_pairs, ms.states), None);
                }
            }
        }
        // the verdict on the automaton is in: report it now, an automaton that is not minimal can make
        // state elimination exhaust the memory of the process
        let bad = DENSE_REPORT.with(|r| !r.borrow()["violations"].as_array().unwrap().is_empty());
        if bad {
            DENSE_REPORT.with(|r| println!("{}", r.borrow()));
            use std::io::Write;
            let _ = std::io::stdout().flush();
            std::process::exit(0);
        }
    }
}

/// Child mode `vharness __c16_dense <spec json>`: one dense case in its own address space; prints one JSON line.
pub fn dense_child_main(spec: &str) -> i32 {
    install_quiet_panic_hook();
    let Ok(spec) = serde_json::from_str::<serde_json::Value>(spec) else { return 2 };
    let (tcs, left_out) = dense_words(&spec);
    DENSE_WANT.with(|w| *w.borrow_mut() = tcs.iter().cloned().collect());
    grex::verif::set_observer(Some(dense_observer));
    let (res, _ev) = build_ev(&tcs, Settings::new(0));
    grex::verif::set_observer(None);
    match res {
        Err(p) => dense_violation("panic", format!("build() panicked: {p}"), None),
        Ok(out) => {
            DENSE_REPORT.with(|r| {
                r.borrow_mut()["output_len"] = json!(out.len());
                r.borrow_mut()["output_head"] = json!(out.chars().take(120).collect::<String>());
            });
            match regex::Regex::new(&out) {
                Err(e) => dense_violation("stage_pattern_invalid", format!("final expression does not compile: {e}"), None),
                Ok(re) => {
                    if let Some(w) = tcs.iter().find(|w| !re.is_match(w)) {
                        dense_violation("stage_min_to_out", format!("final expression stops accepting {w:?}"), Some(w.clone()));
                    } else if let Some(w) = left_out.iter().find(|w| re.is_match(w)) {
                        dense_violation("stage_min_to_out", format!("final expression starts accepting {w:?}"), Some(w.clone()));
                    } else {
                        DENSE_REPORT.with(|r| {
                            let c = r.borrow()["comparisons"].as_u64().unwrap_or(0);
                            r.borrow_mut()["comparisons"] = json!(c + 1);
                        });
                    }
                }
            }
        }
    }
    DENSE_REPORT.with(|r| println!("{}", r.borrow()));
    0
}

/// Automata with tens of thousands of trie states: the general stage comparison is out of reach of the
/// oracle there, so an observer installed at the hook judges the trie and the minimised automaton the
/// moment they are recorded (language by enumeration against the test cases; deterministic, trim, no two
/// states with one right language), and the final expression is run against every test case and the
/// words left out. Each case runs in a child process with a bounded address space; a child that dies
/// without a verdict is inconclusive.
pub fn check_dense(ctx: &Ctx, st: &mut Stats, spec: &serde_json::Value) {
    let _ = ctx;
    st.evaluations += 1;
    let mut case = spec.clone();
    case["dense"] = json!(true);
    let exe = std::env::current_exe().unwrap();
    let out = std::process::Command::new("sh")
        .arg("-c")
        .arg("ulimit -v 8000000; exec \"$0\" __c16_dense \"$1\"")
        .arg(&exe)
        .arg(spec.to_string())
        .stderr(std::process::Stdio::null())
        .output();
    let out = match out {
        Ok(o) => o,
        Err(e) => {
            st.inconclusive(&format!("dense child: spawn: {e}"));
            return;
        }
    };
    let line = String::from_utf8_lossy(&out.stdout);
    let Some(rep) = line.lines().rev().find_map(|l| serde_json::from_str::<serde_json::Value>(l).ok()) else {
        st.inconclusive(&format!("dense child ended without a verdict ({:?})", out.status));
        return;
    };
    st.add("stage_comparisons", rep["comparisons"].as_u64().unwrap_or(0));
    st.add("dense_trie_states", rep["trie_states"].as_u64().unwrap_or(0));
    st.add("trie_states_total", rep["trie_states"].as_u64().unwrap_or(0));
    st.add("min_states_total", rep["min_states"].as_u64().unwrap_or(0));
    if rep["min_states"].is_u64() {
        st.count("minimality_checks");
    } else {
        st.violation("hook_events_missing", "the build produced no minimised DFA snapshot".into(), case.clone());
    }
    for v in rep["violations"].as_array().cloned().unwrap_or_default() {
        let mut c = case.clone();
        c["witness"] = v["witness"].clone();
        st.violation(v["kind"].as_str().unwrap_or("dense"), v["detail"].as_str().unwrap_or("").to_string(), c);
    }
    st.decided += 1;
    st.distinct.insert(gen::hash_case(&[spec.to_string()], Settings::new(0)));
    if rep["violations"].as_array().map_or(true, |a| a.is_empty()) {
        st.sample(json!({"dense_case": spec, "trie_states": rep["trie_states"], "min_states": rep["min_states"], "output_head": rep["output_head"],
            "verdict": "minimised automaton minimal, trim, deterministic; trie, minimised automaton and expression accept exactly the test cases"}));
    }
}

pub fn replay(ctx: &Ctx, case: &serde_json::Value) {
    if case["dense"].as_bool() == Some(true) {
        let mut st = Stats::new();
        check_dense(ctx, &mut st, case);
        ctx.run.merge(st);
        return;
    }
    let (tcs, s) = case_from_json(case);
    let mut st = Stats::new();
    check_case(ctx, &mut st, &tcs, s);
    ctx.run.merge(st);
}

pub const ALLOWED: u32 = CLASS_MASK | REP | CI | ESC | VERB | CAP | NOSTART | NOEND;

pub fn run(ctx: &Ctx) -> i32 {
    let seed = ctx.seed();
    let w_ab = gen::words(&["a", "b"], 3);
    let w_abc = gen::words(&["a", "b", "c"], 2);
    let max_set = if ctx.thorough { 15 } else { 3 };
    for (name, words) in [("ab3", &w_ab), ("abc2", &w_abc)] {
        let subs = gen::subsets(words.len(), max_set.min(words.len()));
        par_for(&ctx.run, subs.len(), |i, st| {
            let tcs = gen::pick_subset(words, subs[i]);
            st.count(&format!("exhaustive_{name}_sets"));
            check_case(ctx, st, &tcs, Settings::new(0));
            if ctx.thorough || i % 2 == 0 {
                check_case(ctx, st, &tcs, Settings::new(REP));
            }
            if i % 4 == 0 {
                check_case(ctx, st, &tcs, Settings::new(NOSTART | NOEND));
            }
        });
    }
    // character classes over control characters and letters (the printing stage decides ranges)
    let cl: Vec<String> = "\t\n\r -[]^\\abnoprstuvz".chars().map(|c| c.to_string()).collect();
    let mut triples = vec![];
    for a in 0..cl.len() {
        for b in a + 1..cl.len() {
            for c in b + 1..cl.len() {
                triples.push(vec![cl[a].clone(), cl[b].clone(), cl[c].clone()]);
            }
        }
    }
    par_for(&ctx.run, triples.len(), |i, st| {
        st.count("control_and_letter_class_sets");
        check_case(ctx, st, &triples[i], Settings::new(0));
    });
    // large sparse automata: many states over many distinct symbols, shared suffixes (minimality matters)
    let n_large = if ctx.thorough { 60 } else { 6 };
    par_for(&ctx.run, n_large, |i, st| {
        let mut rng = Rng::new(seed, 0x161_0000 + i as u64);
        let n_sym = 40 + rng.below(100);
        let base = if i % 2 == 0 { 0x4e00u32 } else { 0x100 };
        let sym: Vec<String> = (0..n_sym).filter_map(|k| char::from_u32(base + k as u32)).map(|c| c.to_string()).collect();
        let k = 30 + rng.below(60);
        let suffix: String = (0..3 + rng.below(6)).map(|_| rng.pick(&sym).clone()).collect();
        let tcs: Vec<String> = (0..k)
            .map(|_| {
                let l = 4 + rng.below(9);
                let mut s: String = (0..l).map(|_| rng.pick(&sym).clone()).collect();
                if rng.chance(2, 3) {
                    s.push_str(&suffix);
                }
                s
            })
            .collect();
        st.count("large_sparse_inputs");
        check_case(ctx, st, &tcs, Settings::new(0));
    });
    // medium-sized inputs: many / long test cases, many distinct symbols, long repeats, deep prefix chains
    {
        let n = if ctx.thorough { 4000 } else { 250 };
        let names = ["ab", "abc", "mixed", "meta", "clusters"];
        let als: Vec<Vec<String>> = names.iter().map(|a| gen::alphabet(a)).collect();
        par_for(&ctx.run, n, |i, st| {
            let mut rng = Rng::new(seed, 0x162_0000 + i as u64);
            let tcs = gen::medium_family(&mut rng, &als[i % als.len()]);
            let tcs: Vec<String> = tcs.into_iter().filter(|t| !t.is_empty()).collect();
            if tcs.is_empty() {
                return;
            }
            st.count("medium_sized_inputs");
            let s = match i % 3 { 0 => Settings::new(0), 1 => Settings::new(REP), _ => Settings::new(NOSTART | NOEND) };
            check_case(ctx, st, &tcs, s);
        });
    }
    // literal text resembling class tokens next to members of that class
    {
        let look = gen::token_lookalike_cases();
        let extra = [0, REP, REP | ESC, REP | VERB, REP | CAP, CI];
        par_for(&ctx.run, look.len() * extra.len(), |i, st| {
            let (tcs, f) = &look[i % look.len()];
            st.count("token_lookalike_cases");
            check_case(ctx, st, tcs, Settings::new(f | extra[i / look.len()]));
        });
    }
    // automata with thousands of states (limits / caps in the minimiser would show here)
    {
        let n_big = if ctx.thorough { 8 } else { 2 };
        par_for(&ctx.run, n_big, |i, st| {
            let mut rng = Rng::new(seed, 0x163_0000 + i as u64);
            let letters: Vec<String> = "abcdefghijklmnopqrstuvwxyz".chars().map(|c| c.to_string()).collect();
            let k = 56 + 6 * i;
            let tcs: Vec<String> = (0..k).map(|_| (0..40).map(|_| rng.pick(&letters).clone()).collect()).collect();
            st.count("thousands_of_states_inputs");
            check_case(ctx, st, &tcs, Settings::new(0));
        });
        let det = gen::cluster_repeat_cases();
        let fl = [REP, REP | WORD, REP | DIGIT, REP | ESC];
        par_for(&ctx.run, det.len() * fl.len(), |i, st| {
            st.count("cluster_repeat_cases");
            check_case(ctx, st, &det[i % det.len()], Settings::new(fl[i / det.len()]));
        });
    }
    // tries with tens of thousands of states: all words of one or two lengths over a small alphabet, a few left out
    {
        let shapes: [(&[&str], usize); 8] = [
            (&["a", "b"], 12),
            (&["a", "b"], 14),
            (&["a", "b", "c"], 8),
            (&["a", "b", "c"], 9),
            (&["x", "1", "-", "é"], 7),
            (&["a", "b"], 15),
            (&["a", "b", "c", "d", "e"], 6),
            (&["a", "b", "c"], 10),
        ];
        let n_dense = if ctx.thorough { 48 } else { 6 };
        par_for(&ctx.run, n_dense, |i, st| {
            let mut rng = Rng::new(seed, 0x164_0000 + i as u64);
            let (sigma, len) = shapes[if ctx.thorough { i % shapes.len() } else { (i + seed as usize) % 5 }];
            let shorter = i % 3 == 2;
            let drop = [0usize, 1, 3, 40][(i / 2 + seed as usize) % 4];
            let (words, _) = dense_words(&json!({"sigma": sigma, "len": len, "shorter": shorter, "left_out": []}));
            let mut left_out: Vec<String> = vec![];
            while left_out.len() < drop {
                let w = rng.pick(&words).clone();
                if !left_out.contains(&w) {
                    left_out.push(w);
                }
            }
            st.count("dense_large_inputs");
            check_dense(ctx, st, &json!({"sigma": sigma, "len": len, "shorter": shorter, "left_out": left_out}));
        });
    }
    // states with very many outgoing edges next to multi-code-point graphemes and their lone first code points
    {
        let fanouts = [33usize, 34, 40, 65, 70, 129, 140, 257, 300];
        let n = if ctx.thorough { 1800 } else { 72 };
        par_for(&ctx.run, n, |i, st| {
            let mut rng = Rng::new(seed, 0x165_0000 + i as u64);
            let tcs = gen::wide_fanout_family(&mut rng, fanouts[i % fanouts.len()]);
            st.count("wide_fanout_families");
            check_case(ctx, st, &tcs, Settings::new(0));
        });
    }
    // prefixes followed by different sets of repeat counts (all pairs of subsets of {1..5})
    {
        let cs = gen::count_set_cases();
        let step = if ctx.thorough { 1 } else { 2 };
        par_for(&ctx.run, cs.len() / step, |k, st| {
            let i = k * step + (seed as usize % step);
            st.count("count_set_cases");
            check_case(ctx, st, &cs[i], Settings::new(REP));
        });
    }
    // code points at arithmetic distances from the encoding boundaries (position arithmetic slips)
    {
        let far = gen::far_neighbour_sets();
        par_for(&ctx.run, far.len(), |i, st| {
            st.count("far_neighbour_sets");
            check_case(ctx, st, &far[i], Settings::new(0));
        });
    }
    // prefixes x^i y^j that fold into shared trie states under repetition conversion
    {
        let n = if ctx.thorough { 40000 } else { 2500 };
        par_for(&ctx.run, n, |i, st| {
            let mut rng = Rng::new(seed, 0x164_0000 + i as u64);
            let tcs = gen::merged_prefix_family(&mut rng, if i % 2 == 0 { &["a", "b"] } else { &["a", "b", "c"] });
            st.count("merged_prefix_families");
            check_case(ctx, st, &tcs, Settings::new(REP));
        });
    }
    let n = if ctx.thorough { 200_000 } else { 8_000 };
    let alphabets: Vec<(String, Vec<String>)> = gen::ALPHABETS.iter().map(|a| (a.to_string(), gen::alphabet(a))).collect();
    par_for(&ctx.run, n, |i, st| {
        let mut rng = Rng::new(seed, 0x160_0000 + i as u64);
        let (name, al) = &alphabets[i % alphabets.len()];
        let tcs = if rng.chance(1, 3) { gen::repeat_family(&mut rng, al) } else { gen::family(&mut rng, al) };
        let s = match i % 4 {
            0 => Settings::new(0),
            1 => {
                let (m, l) = gen::thresholds(&mut rng);
                Settings::with(REP, m, l)
            }
            _ => gen::settings(&mut rng, ALLOWED),
        };
        let tcs: Vec<String> = if s.flags & CLASS_MASK != 0 { tcs.into_iter().map(|t| t.chars().take(8).collect()).take(4).collect() } else { tcs };
        st.count(&format!("random_{name}"));
        check_case(ctx, st, &tcs, s);
    });
    ctx.run.finish(
        "cases = the C02 and C05 workloads (exhaustive subsets of {a,b}^<=3 / {a,b,c}^<=2, structured and repeat-rich random families over 10 alphabets) with and without repetition conversion, class conversion, disabled anchors (self-check fallbacks); non-trivial as in C01; distinct by (set of test cases, settings)",
        "per execution the hook event log of the real build() yields the converted clusters, the trie and the minimised automaton (start, finals, edges) and the eliminated expression; consecutive stage languages spec->clusters->trie->minimised->expression->final expression->output are compared by DFA equivalence; with repetition off the minimised automaton is checked for determinism, reachability, co-reachability and pairwise distinct right languages (bottom-up signatures); a build without hook events fails the run",
        &["the hook records the real data structures read-only (src/verif.rs, cfg(grex_verif))", "stage patterns are derived from recorded snapshots by path enumeration (cap 4000 paths => inconclusive)"],
        json!({}),
        false,
    )
}
