//! C16 — every pipeline stage preserves the language; minimisation is minimal.
//! Observed through the grex_verif event log of the real build() execution.
use crate::attrib;
use crate::cfg::*;
use crate::e2e::Ctx;
use crate::gen::{self, Rng};
use crate::report::*;
use crate::spec;
use crate::stages;
use serde_json::json;

pub fn check_case(ctx: &Ctx, st: &mut Stats, tcs: &[String], s: Settings) {
    st.evaluations += 1;
    let (res, ev) = build_ev(tcs, s);
    let out = match res {
        Ok(o) => o,
        Err(p) => {
            st.violation("panic", format!("build() panicked: {p}"), case_json(tcs, s));
            return;
        }
    };
    let t = stages::trace(&ev);
    let sp = spec::spec(&ctx.classes, tcs, s);
    let rep = attrib::analyse(&t, s, &out, &sp);
    st.add("stage_comparisons", rep.comparisons as u64);
    let mut case = case_json(tcs, s);
    case["output"] = json!(out);
    if rep.missing_events {
        st.violation("hook_events_missing", "the build produced no clusters / DFA snapshots / expression events".into(), case);
        return;
    }
    for e in &rep.inconclusive {
        st.inconclusive(e);
    }
    for e in &rep.invalid {
        st.violation("stage_pattern_invalid", e.clone(), case.clone());
    }
    for d in &rep.diffs {
        let mut c = case.clone();
        c["from_pattern"] = json!(d.from_pat);
        c["to_pattern"] = json!(d.to_pat);
        c["witness"] = json!(d.witness);
        ctx.run.classify(
            st,
            d.known,
            &format!("stage_{}_to_{}", d.from, d.to),
            format!("stage {} -> {} {} {:?}", d.from, d.to, if d.to_accepts { "starts accepting" } else { "stops accepting" }, d.witness),
            c,
        );
    }
    // structure of the automata
    if let (Some(trie), Some(min)) = (&t.trie, &t.min) {
        if !s.has(REP) {
            // trie: deterministic by construction when every edge is one symbol
            if let Some(ts) = stages::structure(trie) {
                if !ts.nondeterministic.is_empty() {
                    st.violation("trie_not_deterministic", ts.nondeterministic.join("; "), case.clone());
                }
            }
            match stages::structure(min) {
                None => st.violation("minimised_has_cycle", "minimised automaton is cyclic".into(), case.clone()),
                Some(ms) => {
                    st.count("minimality_checks");
                    st.add("min_states_total", ms.states as u64);
                    st.add("trie_states_total", trie.nodes.len() as u64);
                    if !ms.nondeterministic.is_empty() {
                        st.violation("minimised_not_deterministic", ms.nondeterministic.join("; "), case.clone());
                    }
                    if ms.unreachable > 0 {
                        st.violation("minimised_unreachable_state", format!("{} unreachable states", ms.unreachable), case.clone());
                    }
                    // with D1 the start state loses finality; if it was the only accepting state on some
                    // path nothing else changes, dead states can only appear for T = {""}
                    if ms.dead > 0 && !(stages::d1_signature(&t) && min.finals.is_empty()) {
                        st.violation("minimised_dead_state", format!("{} states cannot reach an accepting state", ms.dead), case.clone());
                    }
                    if ms.equivalent_pairs > 0 {
                        st.violation(
                            "minimised_not_minimal",
                            format!("{} state(s) share a right language with another state ({} states for a trie of {})", ms.equivalent_pairs, ms.states, trie.nodes.len()),
                            case.clone(),
                        );
                    }
                }
            }
        }
    }
    st.decided += 1;
    if gen::nontrivial(tcs) {
        st.distinct.insert(gen::hash_case(tcs, s));
    }
    if rep.diffs.is_empty() {
        st.sample(json!({"test_cases": tcs, "settings": s.names(), "output": out,
            "stages": {"clusters": t.clusters.as_ref().map(|c| stages::clusters_pattern(c, false)),
                       "trie_states": t.trie.as_ref().map(|x| x.nodes.len()), "min_states": t.min.as_ref().map(|x| x.nodes.len()),
                       "expr": t.expr, "branches": t.branches}, "verdict": "all stage languages equal"}));
    }
}

pub fn replay(ctx: &Ctx, case: &serde_json::Value) {
    let (tcs, s) = case_from_json(case);
    let mut st = Stats::new();
    check_case(ctx, &mut st, &tcs, s);
    ctx.run.merge(st);
}

pub const ALLOWED: u32 = CLASS_MASK | REP | CI | ESC | VERB | CAP | NOSTART | NOEND;

pub fn run(ctx: &Ctx) -> i32 {
    let seed = ctx.seed();
    let w_ab = gen::words(&["a", "b"], 3);
    let w_abc = gen::words(&["a", "b", "c"], 2);
    let max_set = if ctx.thorough { 15 } else { 3 };
    for (name, words) in [("ab3", &w_ab), ("abc2", &w_abc)] {
        let subs = gen::subsets(words.len(), max_set.min(words.len()));
        par_for(&ctx.run, subs.len(), |i, st| {
            let tcs = gen::pick_subset(words, subs[i]);
            st.count(&format!("exhaustive_{name}_sets"));
            check_case(ctx, st, &tcs, Settings::new(0));
            if ctx.thorough || i % 2 == 0 {
                check_case(ctx, st, &tcs, Settings::new(REP));
            }
            if i % 4 == 0 {
                check_case(ctx, st, &tcs, Settings::new(NOSTART | NOEND));
            }
        });
    }
    // character classes over control characters and letters (the printing stage decides ranges)
    let cl: Vec<String> = "\t\n\r -[]^\\abnoprstuvz".chars().map(|c| c.to_string()).collect();
    let mut triples = vec![];
    for a in 0..cl.len() {
        for b in a + 1..cl.len() {
            for c in b + 1..cl.len() {
                triples.push(vec![cl[a].clone(), cl[b].clone(), cl[c].clone()]);
            }
        }
    }
    par_for(&ctx.run, triples.len(), |i, st| {
        st.count("control_and_letter_class_sets");
        check_case(ctx, st, &triples[i], Settings::new(0));
    });
    // large sparse automata: many states over many distinct symbols, shared suffixes (minimality matters)
    let n_large = if ctx.thorough { 60 } else { 6 };
    par_for(&ctx.run, n_large, |i, st| {
        let mut rng = Rng::new(seed, 0x161_0000 + i as u64);
        let n_sym = 40 + rng.below(100);
        let base = if i % 2 == 0 { 0x4e00u32 } else { 0x100 };
        let sym: Vec<String> = (0..n_sym).filter_map(|k| char::from_u32(base + k as u32)).map(|c| c.to_string()).collect();
        let k = 30 + rng.below(60);
        let suffix: String = (0..3 + rng.below(6)).map(|_| rng.pick(&sym).clone()).collect();
        let tcs: Vec<String> = (0..k)
            .map(|_| {
                let l = 4 + rng.below(9);
                let mut s: String = (0..l).map(|_| rng.pick(&sym).clone()).collect();
                if rng.chance(2, 3) {
                    s.push_str(&suffix);
                }
                s
            })
            .collect();
        st.count("large_sparse_inputs");
        check_case(ctx, st, &tcs, Settings::new(0));
    });
    // medium-sized inputs: many / long test cases, many distinct symbols, long repeats, deep prefix chains
    {
        let n = if ctx.thorough { 4000 } else { 250 };
        let names = ["ab", "abc", "mixed", "meta", "clusters"];
        let als: Vec<Vec<String>> = names.iter().map(|a| gen::alphabet(a)).collect();
        par_for(&ctx.run, n, |i, st| {
            let mut rng = Rng::new(seed, 0x162_0000 + i as u64);
            let tcs = gen::medium_family(&mut rng, &als[i % als.len()]);
            let tcs: Vec<String> = tcs.into_iter().filter(|t| !t.is_empty()).collect();
            if tcs.is_empty() {
                return;
            }
            st.count("medium_sized_inputs");
            let s = match i % 3 { 0 => Settings::new(0), 1 => Settings::new(REP), _ => Settings::new(NOSTART | NOEND) };
            check_case(ctx, st, &tcs, s);
        });
    }
    // literal text resembling class tokens next to members of that class
    {
        let look = gen::token_lookalike_cases();
        let extra = [0, REP, REP | ESC, REP | VERB, REP | CAP, CI];
        par_for(&ctx.run, look.len() * extra.len(), |i, st| {
            let (tcs, f) = &look[i % look.len()];
            st.count("token_lookalike_cases");
            check_case(ctx, st, tcs, Settings::new(f | extra[i / look.len()]));
        });
    }
    // automata with thousands of states (limits / caps in the minimiser would show here)
    {
        let n_big = if ctx.thorough { 8 } else { 2 };
        par_for(&ctx.run, n_big, |i, st| {
            let mut rng = Rng::new(seed, 0x163_0000 + i as u64);
            let letters: Vec<String> = "abcdefghijklmnopqrstuvwxyz".chars().map(|c| c.to_string()).collect();
            let k = 56 + 6 * i;
            let tcs: Vec<String> = (0..k).map(|_| (0..40).map(|_| rng.pick(&letters).clone()).collect()).collect();
            st.count("thousands_of_states_inputs");
            check_case(ctx, st, &tcs, Settings::new(0));
        });
        let det = gen::cluster_repeat_cases();
        let fl = [REP, REP | WORD, REP | DIGIT, REP | ESC];
        par_for(&ctx.run, det.len() * fl.len(), |i, st| {
            st.count("cluster_repeat_cases");
            check_case(ctx, st, &det[i % det.len()], Settings::new(fl[i / det.len()]));
        });
    }
    // prefixes followed by different sets of repeat counts (all pairs of subsets of {1..5})
    {
        let cs = gen::count_set_cases();
        let step = if ctx.thorough { 1 } else { 2 };
        par_for(&ctx.run, cs.len() / step, |k, st| {
            let i = k * step + (seed as usize % step);
            st.count("count_set_cases");
            check_case(ctx, st, &cs[i], Settings::new(REP));
        });
    }
    // code points at arithmetic distances from the encoding boundaries (position arithmetic slips)
    {
        let far = gen::far_neighbour_sets();
        par_for(&ctx.run, far.len(), |i, st| {
            st.count("far_neighbour_sets");
            check_case(ctx, st, &far[i], Settings::new(0));
        });
    }
    // prefixes x^i y^j that fold into shared trie states under repetition conversion
    {
        let n = if ctx.thorough { 40000 } else { 2500 };
        par_for(&ctx.run, n, |i, st| {
            let mut rng = Rng::new(seed, 0x164_0000 + i as u64);
            let tcs = gen::merged_prefix_family(&mut rng, if i % 2 == 0 { &["a", "b"] } else { &["a", "b", "c"] });
            st.count("merged_prefix_families");
            check_case(ctx, st, &tcs, Settings::new(REP));
        });
    }
    let n = if ctx.thorough { 200_000 } else { 8_000 };
    let alphabets: Vec<(String, Vec<String>)> = gen::ALPHABETS.iter().map(|a| (a.to_string(), gen::alphabet(a))).collect();
    par_for(&ctx.run, n, |i, st| {
        let mut rng = Rng::new(seed, 0x160_0000 + i as u64);
        let (name, al) = &alphabets[i % alphabets.len()];
        let tcs = if rng.chance(1, 3) { gen::repeat_family(&mut rng, al) } else { gen::family(&mut rng, al) };
        let s = match i % 4 {
            0 => Settings::new(0),
            1 => {
                let (m, l) = gen::thresholds(&mut rng);
                Settings::with(REP, m, l)
            }
            _ => gen::settings(&mut rng, ALLOWED),
        };
        let tcs: Vec<String> = if s.flags & CLASS_MASK != 0 { tcs.into_iter().map(|t| t.chars().take(8).collect()).take(4).collect() } else { tcs };
        st.count(&format!("random_{name}"));
        check_case(ctx, st, &tcs, s);
    });
    ctx.run.finish(
        "cases = the C02 and C05 workloads (exhaustive subsets of {a,b}^<=3 / {a,b,c}^<=2, structured and repeat-rich random families over 10 alphabets) with and without repetition conversion, class conversion, disabled anchors (self-check fallbacks); non-trivial as in C01; distinct by (set of test cases, settings)",
        "per execution the hook event log of the real build() yields the converted clusters, the trie and the minimised automaton (start, finals, edges) and the eliminated expression; consecutive stage languages spec->clusters->trie->minimised->expression->final expression->output are compared by DFA equivalence; with repetition off the minimised automaton is checked for determinism, reachability, co-reachability and pairwise distinct right languages (bottom-up signatures); a build without hook events fails the run",
        &["the hook records the real data structures read-only (src/verif.rs, cfg(grex_verif))", "stage patterns are derived from recorded snapshots by path enumeration (cap 4000 paths => inconclusive)"],
        json!({}),
        false,
    )
}
