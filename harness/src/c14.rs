//! C14 — Python binding: same pattern as the library, in Python escape syntax, valid for `re`.
//! Artifact under test: the real extension module built from /repo (build_python.sh), loaded in
//! CPython; the Rust side generates cases and the library's own results, py/c14_monitor.py replays
//! them through the module.
use crate::cfg::*;
use crate::e2e::Ctx;
use crate::gen::{self, Rng};
use crate::report::*;
use crate::stages;
use serde_json::{json, Value};
use std::io::{BufRead, Write};
use std::process::Command;

pub const ALLOWED: u32 = ALL_FLAGS & !COLOR;

struct Case {
    tcs: Vec<String>,
    s: Settings,
    rust_out: String,
    d1: bool,
}

fn mk_case(tcs: Vec<String>, s: Settings) -> Option<Case> {
    let (r, ev) = build_ev(&tcs, s);
    let rust_out = r.ok()?;
    let d1 = stages::d1_signature(&stages::trace(&ev));
    Some(Case { tcs, s, rust_out, d1 })
}


/// Replays `cases` through the real extension module (sharded over processes) and records verdicts.
fn through_module(ctx: &Ctx, st: &mut Stats, cases: &[Case], python: &str, pymod: &str, seed: u64) -> String {
    // ---- replay through the module, sharded over processes
    let shards = 12usize;
    let dir = format!("/verif/.build/tmp/c14-{}", std::process::id());
    let _ = std::fs::create_dir_all(&dir);
    let mut children = vec![];
    for k in 0..shards {
        let path = format!("{dir}/cases-{k}.jsonl");
        let mut f = std::io::BufWriter::new(std::fs::File::create(&path).unwrap());
        for (idx, c) in cases.iter().enumerate().filter(|(i, _)| i % shards == k) {
            let mut v = json!({"idx": idx, "test_cases": c.tcs, "flags": c.s.names(), "min_rep": c.s.min_rep, "min_len": c.s.min_len, "rust_out": c.rust_out, "order_seed": seed.wrapping_add(idx as u64)});
            if c.s.has(REP) && idx % 2 == 0 {
                // after all setters: threshold calls with 0 / -1 that are rejected and caught
                v["rejected_threshold_call"] = json!(true);
            }
            if c.s.has(ESC) && idx % 3 == 0 {
                // call the escaping setter twice; the last value must win
                v["escape_history"] = json!([!c.s.has(SURR), c.s.has(SURR)]);
            }
            writeln!(f, "{v}").unwrap();
        }
        drop(f);
        let child = Command::new(&python).arg("/verif/py/c14_monitor.py").arg(pymod).arg(&path).arg(format!("{dir}/results-{k}.jsonl")).spawn();
        children.push(child);
    }
    for (k, ch) in children.into_iter().enumerate() {
        match ch {
            Err(e) => st.inconclusive(&format!("cannot start python: {e}")),
            Ok(mut c) => {
                let status = c.wait();
                if !status.map(|s| s.success()).unwrap_or(false) {
                    st.inconclusive(&format!("python monitor shard {k} failed"));
                }
            }
        }
    }
    let mut python_version = String::new();
    for k in 0..shards {
        let Ok(f) = std::fs::File::open(format!("{dir}/results-{k}.jsonl")) else {
            st.inconclusive("missing results file");
            continue;
        };
        for line in std::io::BufReader::new(f).lines().map_while(Result::ok) {
            let Ok(v) = serde_json::from_str::<Value>(&line) else { continue };
            if let Some(errs) = v.get("errors") {
                python_version = v["python"].as_str().unwrap_or("").to_string();
                if k == 0 {
                    for e in errs.as_array().cloned().unwrap_or_default() {
                        st.evaluations += 1;
                        st.decided += 1;
                        st.count("error_contract_checks");
                        if e["ok"] != json!(true) {
                            st.violation("wrong_exception", format!("{}: {}", e["kind"], e["detail"]), json!({"what": e["kind"], "detail": e["detail"]}));
                        }
                    }
                }
                continue;
            }
            let idx = v["idx"].as_u64().unwrap_or(0) as usize;
            let Some(c) = cases.get(idx) else { continue };
            st.evaluations += 1;
            if let Some(h) = v.get("harness_error") {
                st.inconclusive(&format!("python harness error: {h}"));
                continue;
            }
            st.decided += 1;
            for n in v["notes"].as_array().cloned().unwrap_or_default() {
                let n = n.as_str().unwrap_or("").to_string();
                let key: String = n.split(" for ").next().unwrap_or("").chars().take(50).collect();
                st.count(&format!("note:{key}"));
            }
            if c.s.has(ESC) && c.rust_out.contains("\\u{") {
                st.count("cases_with_escapes_rewritten");
                st.distinct.insert(gen::hash_case(&c.tcs, c.s));
            } else if c.tcs.len() >= 2 && c.s.flags != 0 {
                st.distinct.insert(gen::hash_case(&c.tcs, c.s));
            }
            let probs = v["problems"].as_array().cloned().unwrap_or_default();
            if probs.is_empty() {
                st.sample(json!({"test_cases": c.tcs, "settings": c.s.names(), "rust": c.rust_out, "python": v["py_out"]}));
            }
            for p in probs {
                let kind = p["kind"].as_str().unwrap_or("?").to_string();
                let mut case = case_json(&c.tcs, c.s);
                case["rust_out"] = json!(c.rust_out);
                case["python_out"] = v["py_out"].clone();
                let mut d: Vec<&String> = c.tcs.iter().collect();
                d.sort();
                d.dedup();
                let unmatched: Vec<String> = p["unmatched"].as_array().map(|a| a.iter().map(|x| x.as_str().unwrap_or("?").to_string()).collect()).unwrap_or_default();
                let is_d1 = kind == "test_case_not_matched" && c.d1 && d.len() >= 2 && !unmatched.is_empty() && unmatched.iter().all(|u| u.is_empty());
                ctx.run.classify(st, if is_d1 { Some("KF-D1") } else { None }, &kind, p["detail"].as_str().unwrap_or("").to_string(), case);
            }
        }
    }
    let _ = std::fs::remove_dir_all(&dir);
    python_version
}

pub fn replay(ctx: &Ctx, case: &Value) {
    let pymod = "/verif/.build/pymod";
    let python = std::fs::read_to_string(format!("{pymod}/python-path")).map(|s| s.trim().to_string()).unwrap_or_else(|_| "python3".into());
    let (tcs, s) = case_from_json(case);
    let mut st = Stats::new();
    if let Some(c) = mk_case(tcs, s) {
        through_module(ctx, &mut st, &[c], &python, pymod, ctx.seed());
    }
    ctx.run.merge(st);
}

pub fn run(ctx: &Ctx) -> i32 {
    let seed = ctx.seed();
    let pymod = "/verif/.build/pymod";
    let python = std::fs::read_to_string(format!("{pymod}/python-path")).map(|s| s.trim().to_string()).unwrap_or_else(|_| "python3".into());
    if !std::path::Path::new(&format!("{pymod}/grex.so")).exists() {
        println!("[C14] ERROR: {pymod}/grex.so missing (build_python.sh failed?)");
        return 3;
    }
    // ---- workload
    let mut cases: Vec<Case> = vec![];
    let widths = ["\u{80}", "\u{e9}", "\u{100}", "\u{fff}", "\u{1000}", "\u{ffff}", "\u{10000}", "\u{fffff}", "\u{100000}", "\u{10ffff}", "a", "\u{7f}", "💩", "♥"];
    let esc_modes = [0, ESC, ESC | SURR];
    let others: Vec<u32> = if ctx.thorough { vec![0, REP, VERB, CI, CAP, REP | VERB, NOSTART | NOEND, CI | VERB | CAP, DIGIT, NWORD | REP] } else { vec![0, REP, VERB, CI | CAP, NWORD] };
    // every code point width alone, doubled, tripled, and next to each other width
    for (i, w) in widths.iter().enumerate() {
        for e in esc_modes {
            for o in &others {
                let s = Settings::new(e | o);
                for t in [vec![w.to_string()], vec![w.repeat(3)], vec![format!("{w}{w}a"), w.to_string()]] {
                    cases.extend(mk_case(t, s));
                }
                let v = widths[(i + 1) % widths.len()];
                cases.extend(mk_case(vec![format!("{w}{v}"), format!("{v}{w}"), w.to_string()], s));
            }
        }
    }
    // literal backslashes followed by text that looks like an escape once a quantifier is written behind it
    // (`\\uu` becomes `\\\\u{2}` with repetition conversion: a quantified letter, not an escape)
    {
        let looks = ["\\uu", "\\uuu", "x\\uuy", "\\uu\u{e9}", "\u{e9}\\uuuu", "\\\\uu", "\\UU", "\\xx", "\\u{e9}", "\\u{2}", "\\uu{2}", "\\\u{1f4a9}uu", "u\\uu\\uu"];
        for (i, t) in looks.iter().enumerate() {
            for e in esc_modes {
                for o in [0, REP, REP | VERB, REP | CAP, REP | CI] {
                    cases.extend(mk_case(vec![t.to_string()], Settings::new(e | o)));
                    cases.extend(mk_case(vec![t.to_string(), looks[(i + 1) % looks.len()].to_string(), "z".to_string()], Settings::new(e | o)));
                }
            }
        }
    }
    // patterns of tens of kilobytes (block-wise rewriting would show): many short non-ASCII words, escaping on
    {
        let sizes: &[usize] = if ctx.thorough { &[300, 700, 1500, 2500, 4000, 6000, 9000] } else { &[700, 2200, 4000] };
        let pool: Vec<char> = (0x4e00u32..0x4e40).chain(0x1f600..0x1f620).chain(0xe0..0xf0).filter_map(char::from_u32).collect();
        for (k, n) in sizes.iter().enumerate() {
            let mut rng = Rng::new(seed, 0x141_0000 + k as u64);
            let words: Vec<String> = (0..*n).map(|_| (0..3 + rng.below(4)).map(|_| *rng.pick(&pool)).collect()).collect();
            cases.extend(mk_case(words.clone(), Settings::new(ESC)));
            if ctx.thorough {
                cases.extend(mk_case(words, Settings::new(ESC | SURR)));
            }
        }
    }
    // every single setter and every pair on a discriminating input
    let disc: Vec<String> = ["aaa bb 12 É💩.", "aaa bb", "a", "xyxyxy", "AAA BB"].iter().map(|s| s.to_string()).collect();
    let flags: Vec<u32> = FLAG_NAMES.iter().map(|(_, f)| *f).filter(|f| *f != COLOR).collect();
    for (i, &f) in flags.iter().enumerate() {
        cases.extend(mk_case(disc.clone(), Settings::new(f).normalised()));
        for &g in &flags[i + 1..] {
            cases.extend(mk_case(disc.clone(), Settings::new(f | g).normalised()));
        }
    }
    for m in 1..=3 {
        for l in 1..=3 {
            cases.extend(mk_case(disc.clone(), Settings::with(REP, m, l)));
        }
    }
    // random
    let n = if ctx.thorough { 40_000 } else { 3_000 };
    let names = ["astral", "mixed", "meta", "ws", "graph", "case", "classes", "ab"];
    let alphabets: Vec<Vec<String>> = names.iter().map(|a| gen::alphabet(a)).collect();
    for i in 0..n {
        let mut rng = Rng::new(seed, 0x140_0000 + i as u64);
        let al = if i % 3 == 0 { &alphabets[0] } else { &alphabets[i % alphabets.len()] };
        let tcs = gen::family(&mut rng, al);
        let mut s = gen::settings(&mut rng, ALLOWED);
        if rng.chance(1, 2) {
            s.flags |= ESC;
            if rng.chance(1, 3) {
                s.flags |= SURR;
            }
        }
        // thresholds must fit Python's i32 parameter
        s.min_rep = s.min_rep.min(i32::MAX as u32);
        s.min_len = s.min_len.min(i32::MAX as u32);
        cases.extend(mk_case(tcs, s));
    }
    let mut st = Stats::new();
    let python_version = through_module(ctx, &mut st, &cases, &python, pymod, seed);
    ctx.run.merge(st);
    ctx.run.finish(
        "cases = code points with 2,3,4,5,6 hex digits (U+0080 U+00E9 U+0100 U+0FFF U+1000 U+FFFF U+10000 U+FFFFF U+100000 U+10FFFF) alone, repeated and combined x {no escaping, escaping, escaping with surrogates} x other settings; every single setter and every pair of setters on a discriminating input; thresholds; random families over 8 alphabets x random settings (setter call order shuffled; constructor and from_test_cases alternated); error contract: [] and thresholds 0, -1, i32::MIN; non-trivial = an escape sequence was rewritten, or >=2 test cases with a setting; distinct by (set of test cases, settings)",
        "per execution the string returned by the real extension module (built from /repo, loaded in CPython) is compared with an independent Python re-implementation of the specified rewrite applied to the Rust library's result; re.compile must succeed; without class options re.fullmatch must hold for every test case (astral test cases under surrogate output and non-ASCII case-insensitive mismatches are not asserted); ValueError with the library's exact messages",
        &["CPython's re module defines 'compiles' and 'matches' on the Python side", "Python's and the regex crate's case folding differ for some non-ASCII letters; such mismatches are counted as notes, not violations"],
        json!({"python_version": python_version, "module": format!("{pymod}/grex.so")}),
        false,
    )
}
