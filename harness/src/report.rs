//! E5 — verdicts, replay files, evidence, known findings.
use serde_json::{json, Map, Value};
use std::collections::{BTreeMap, HashSet};
use std::sync::Mutex;
use std::time::Instant;

pub const VERIF_DIR: &str = "/verif";

#[derive(Clone, Debug)]
pub enum Verdict {
    /// A property violation with a replayable case.
    Violation { kind: String, detail: String, case: Value },
    /// A violation recognised by the classifier of a listed known finding.
    Known { id: String, what: String, case: Value },
    /// Could not be decided for this execution.
    Inconclusive { why: String },
}

#[derive(Default)]
pub struct Stats {
    pub evaluations: u64,
    pub decided: u64,
    pub counters: BTreeMap<String, u64>,
    pub distinct: HashSet<u64>,
    pub samples: Vec<Value>,
    pub verdicts: Vec<Verdict>,
}

impl Stats {
    pub fn new() -> Self {
        Self::default()
    }
    pub fn count(&mut self, key: &str) {
        *self.counters.entry(key.to_string()).or_insert(0) += 1;
    }
    pub fn add(&mut self, key: &str, n: u64) {
        *self.counters.entry(key.to_string()).or_insert(0) += n;
    }
    pub fn sample(&mut self, v: Value) {
        if self.samples.len() < 6 {
            self.samples.push(v);
        }
    }
    pub fn violation(&mut self, kind: &str, detail: String, case: Value) {
        self.count(&format!("violation:{kind}"));
        if self.verdicts.len() < 200 {
            self.verdicts.push(Verdict::Violation { kind: kind.to_string(), detail, case });
        }
    }
    pub fn known(&mut self, id: &str, what: String, case: Value) {
        self.count(&format!("known:{id}"));
        if self.verdicts.iter().filter(|v| matches!(v, Verdict::Known{id: i, ..} if i == id)).count() < 3 {
            self.verdicts.push(Verdict::Known { id: id.to_string(), what, case });
        }
    }
    pub fn inconclusive(&mut self, why: &str) {
        self.count("inconclusive");
        let k: String = why.chars().take(60).collect();
        self.count(&format!("inconclusive:{k}"));
        if self.verdicts.iter().filter(|v| matches!(v, Verdict::Inconclusive { .. })).count() < 5 {
            self.verdicts.push(Verdict::Inconclusive { why: why.to_string() });
        }
    }
    pub fn merge(&mut self, o: Stats) {
        self.evaluations += o.evaluations;
        self.decided += o.decided;
        for (k, v) in o.counters {
            *self.counters.entry(k).or_insert(0) += v;
        }
        self.distinct.extend(o.distinct);
        for s in o.samples {
            self.sample(s);
        }
        self.verdicts.extend(o.verdicts);
    }
}

/// Known findings file: `known: property=<id> id=<KF> <text>` and `fixed: ...` lines.
pub struct KnownFindings {
    known: Vec<(String, String, String)>,
}

impl KnownFindings {
    pub fn load() -> Self {
        let txt = std::fs::read_to_string(format!("{VERIF_DIR}/KNOWN_FINDINGS.txt")).unwrap_or_default();
        let mut known = vec![];
        for line in txt.lines() {
            let line = line.trim();
            if let Some(rest) = line.strip_prefix("known:") {
                let mut prop = String::new();
                let mut id = String::new();
                let mut text = vec![];
                for tok in rest.split_whitespace() {
                    if let Some(p) = tok.strip_prefix("property=") {
                        if prop.is_empty() {
                            prop = p.to_string();
                            continue;
                        }
                    }
                    if let Some(i) = tok.strip_prefix("id=") {
                        if id.is_empty() {
                            id = i.to_string();
                            continue;
                        }
                    }
                    text.push(tok);
                }
                known.push((prop, id, text.join(" ")));
            }
        }
        KnownFindings { known }
    }
    pub fn enabled(&self, prop: &str, id: &str) -> bool {
        self.known.iter().any(|(p, i, _)| p == prop && i == id)
    }
    pub fn text(&self, prop: &str, id: &str) -> String {
        self.known.iter().find(|(p, i, _)| p == prop && i == id).map(|(_, _, t)| t.clone()).unwrap_or_default()
    }
}

pub struct Run {
    pub prop: String,
    pub tier: String,
    pub seed: u64,
    pub level: String,
    pub started: Instant,
    pub total: Mutex<Stats>,
    pub kf: KnownFindings,
}

impl Run {
    pub fn new(prop: &str, tier: &str, seed: u64, level: &str) -> Self {
        Run {
            prop: prop.to_string(),
            tier: tier.to_string(),
            seed,
            level: level.to_string(),
            started: Instant::now(),
            total: Mutex::new(Stats::new()),
            kf: KnownFindings::load(),
        }
    }
    pub fn merge(&self, s: Stats) {
        self.total.lock().unwrap().merge(s);
    }

    /// Records a violation unless a *listed* known-finding classifier recognised it.
    pub fn classify(&self, st: &mut Stats, classifier: Option<&str>, kind: &str, detail: String, case: Value) {
        match classifier {
            Some(id) if self.kf.enabled(&self.prop, id) => st.known(id, detail, case),
            _ => st.violation(kind, detail, case),
        }
    }

    /// Writes evidence, prints KNOWN-FINDING / VIOLATION lines, returns the process exit code.
    pub fn finish(&self, rule: &str, explanation: &str, assumptions: &[&str], extra: Value, exhaustive: bool) -> i32 {
        let st = self.total.lock().unwrap();
        let wall = self.started.elapsed().as_secs_f64();
        let mut n_viol = 0usize;
        let mut known_printed: HashSet<String> = HashSet::new();
        let mut out_lines = vec![];
        let _ = std::fs::create_dir_all(format!("{VERIF_DIR}/replays"));
        let mut vio_list = vec![];
        for v in &st.verdicts {
            match v {
                Verdict::Violation { kind, detail, case } => {
                    n_viol += 1;
                    if n_viol <= 20 {
                        let path = format!("{VERIF_DIR}/replays/{}-{}-{}.json", self.prop, self.seed, n_viol);
                        let body = json!({"property": self.prop, "kind": kind, "detail": detail, "case": case});
                        let _ = std::fs::write(&path, serde_json::to_string_pretty(&body).unwrap());
                        out_lines.push(format!("VIOLATION property={} replay={}", self.prop, path));
                        out_lines.push(format!("  kind={kind} detail={detail}"));
                        vio_list.push(json!({"kind": kind, "detail": detail, "case": case, "replay": path}));
                    }
                }
                Verdict::Known { id, what, case } => {
                    if known_printed.insert(id.clone()) {
                        let n = st.counters.get(&format!("known:{id}")).copied().unwrap_or(0);
                        out_lines.push(format!(
                            "KNOWN-FINDING: property={} {} [{}] observed {} time(s), e.g. {} :: {}",
                            self.prop,
                            self.kf.text(&self.prop, id),
                            id,
                            n,
                            case,
                            what
                        ));
                    }
                }
                Verdict::Inconclusive { .. } => {}
            }
        }
        let total_viol: u64 = st.counters.iter().filter(|(k, _)| k.starts_with("violation:")).map(|(_, v)| *v).sum();
        let distinct = st.distinct.len() as u64;
        let mut cov = Map::new();
        cov.insert("evaluations".into(), json!(st.evaluations));
        cov.insert("distinct_nontrivial".into(), json!(distinct));
        cov.insert("decided".into(), json!(st.decided));
        cov.insert("rule".into(), json!(rule));
        cov.insert("samples".into(), json!(st.samples));
        cov.insert("explanation".into(), json!(explanation));
        cov.insert("exhaustive".into(), json!(exhaustive));
        cov.insert("counters".into(), json!(st.counters));
        cov.insert("inconclusive".into(), json!(st.counters.get("inconclusive").copied().unwrap_or(0)));
        let known: BTreeMap<&String, &u64> = st.counters.iter().filter(|(k, _)| k.starts_with("known:")).collect();
        cov.insert("known_finding_hits".into(), json!(known));
        if !vio_list.is_empty() {
            cov.insert("violations_detail".into(), json!(vio_list));
        }
        if let Value::Object(m) = extra {
            for (k, v) in m {
                cov.insert(k, v);
            }
        }
        // A run that observed nothing is a broken check, not a pass.
        let observed_nothing = st.evaluations == 0 || st.decided == 0 || distinct < 2;
        let ev = json!({
            "property_id": self.prop,
            "tier": self.tier,
            "seed": self.seed,
            "level": self.level,
            "coverage": Value::Object(cov),
            "assumptions": assumptions,
            "wall_s": wall,
            "violations": total_viol,
        });
        let _ = std::fs::create_dir_all(format!("{VERIF_DIR}/evidence"));
        std::fs::write(format!("{VERIF_DIR}/evidence/{}.json", self.prop), serde_json::to_string_pretty(&ev).unwrap()).expect("write evidence");
        for l in &out_lines {
            println!("{l}");
        }
        println!(
            "[{}] tier={} seed={} evaluations={} decided={} distinct_nontrivial={} inconclusive={} violations={} wall={:.1}s",
            self.prop,
            self.tier,
            self.seed,
            st.evaluations,
            st.decided,
            distinct,
            st.counters.get("inconclusive").copied().unwrap_or(0),
            total_viol,
            wall
        );
        for (k, v) in st.counters.iter() {
            println!("    {k} = {v}");
        }
        if total_viol > 0 {
            1
        } else if observed_nothing {
            println!("[{}] ERROR: the run observed nothing decisive (broken check)", self.prop);
            2
        } else {
            0
        }
    }
}

/// Runs `f(index, &mut Stats)` for index in 0..n on all cores; merges into the run.
pub fn par_for<F>(run: &Run, n: usize, f: F)
where
    F: Fn(usize, &mut Stats) + Sync,
{
    let threads = std::env::var("VERIF_THREADS").ok().and_then(|s| s.parse().ok()).unwrap_or_else(|| {
        std::thread::available_parallelism().map(|n| n.get()).unwrap_or(8)
    });
    let next = std::sync::atomic::AtomicUsize::new(0);
    let chunk = (n / (threads * 64)).clamp(1, 256);
    std::thread::scope(|sc| {
        for _ in 0..threads {
            sc.spawn(|| {
                crate::cfg::install_quiet_panic_hook();
                let mut st = Stats::new();
                loop {
                    let start = next.fetch_add(chunk, std::sync::atomic::Ordering::Relaxed);
                    if start >= n {
                        break;
                    }
                    for i in start..(start + chunk).min(n) {
                        f(i, &mut st);
                    }
                }
                run.merge(st);
            });
        }
    });
}

pub fn case_json(tcs: &[String], s: crate::cfg::Settings) -> Value {
    json!({"test_cases": tcs, "settings": s.to_json()})
}

pub fn case_from_json(v: &Value) -> (Vec<String>, crate::cfg::Settings) {
    let tcs = v["test_cases"].as_array().map(|a| a.iter().map(|x| x.as_str().unwrap_or("").to_string()).collect()).unwrap_or_default();
    (tcs, crate::cfg::Settings::from_json(&v["settings"]))
}
