//! C07 — build() is total and the result is a valid regex; panics only where documented.
use crate::cfg::*;
use crate::e2e::Ctx;
use crate::gen::{self, Rng};
use crate::report::*;
use grex::RegExpBuilder;
use serde_json::{json, Value};
use std::panic::{catch_unwind, AssertUnwindSafe};
use std::process::{Command, Stdio};

pub const MISSING: &str = "No test cases have been provided for regular expression generation";
pub const MIN_REP: &str = "Quantity of minimum repetitions must be greater than zero";
pub const MIN_LEN: &str = "Minimum substring length must be greater than zero";

/// "accepted by the regex crate": the crate's default parser limits, a generous size limit.
fn accepted(out: &str) -> Result<(), Result<String, String>> {
    match regex::RegexBuilder::new(out).size_limit(512 << 20).dfa_size_limit(16 << 20).build() {
        Ok(_) => Ok(()),
        Err(regex::Error::Syntax(e)) => Err(Ok(e)),
        Err(e) => Err(Err(e.to_string())),
    }
}

/// Signature of known finding KF-D13: the only reason for the rejection is the parser's default
/// nesting limit of 250 (the result compiles once RegexBuilder::nest_limit is raised).
fn nest_limit_only(out: &str, syntax_error: &str) -> bool {
    syntax_error.contains("exceed the maximum number of nested parentheses/brackets")
        && regex::RegexBuilder::new(out).size_limit(512 << 20).dfa_size_limit(16 << 20).nest_limit(1_000_000).build().is_ok()
}

pub fn check_case(ctx: &Ctx, st: &mut Stats, tcs: &[String], s: Settings) {
    st.evaluations += 1;
    match build(tcs, s) {
        Err(p) => st.violation("panic", format!("build() panicked: {p}"), case_json(tcs, s)),
        Ok(out) => {
            if s.has(SURR) || s.has(COLOR) {
                st.decided += 1;
                st.count("returned_without_panic_only");
            } else {
                match accepted(&out) {
                    Ok(()) => {
                        st.decided += 1;
                        st.count("accepted_by_regex_crate");
                    }
                    Err(Ok(syntax)) => {
                        let mut case = case_json(tcs, s);
                        case["output"] = json!(out.chars().take(2000).collect::<String>());
                        let known = if nest_limit_only(&out, &syntax) { Some("KF-D13") } else { None };
                        ctx.run.classify(st, known, "invalid_regex", format!("regex crate rejects the result: {}", syntax.lines().last().unwrap_or("")), case);
                    }
                    Err(Err(e)) => st.inconclusive(&format!("compile limit: {e}")),
                }
            }
            if s.flags.count_ones() >= 2 || gen::nontrivial(tcs) {
                st.distinct.insert(gen::hash_case(tcs, s));
            }
            st.sample(json!({"test_cases": tcs, "settings": s.to_json(), "output": out.chars().take(300).collect::<String>()}));
        }
    }
}

fn panic_message<F: FnOnce()>(f: F) -> Option<String> {
    match catch_unwind(AssertUnwindSafe(f)) {
        Ok(()) => None,
        Err(_) => Some(take_panic().split(" @ ").next().unwrap_or("").to_string()),
    }
}

fn documented_panics(st: &mut Stats) {
    let mut expect = |what: &str, got: Option<String>, want: Option<&str>| {
        st.evaluations += 1;
        st.decided += 1;
        st.count("documented_panic_contract");
        st.distinct.insert(gen::hash_case(&[what.to_string()], Settings::new(0)));
        if got.as_deref() != want {
            st.violation("panic_contract", format!("{what}: expected {:?}, observed {:?}", want, got), json!({"what": what, "expected": want, "observed": got}));
        }
    };
    expect("from(&[])", panic_message(|| drop(RegExpBuilder::from(&[] as &[&str]))), Some(MISSING));
    expect("from(&[] as &[String])", panic_message(|| drop(RegExpBuilder::from(&[] as &[String]))), Some(MISSING));
    expect("with_minimum_repetitions(0)", panic_message(|| drop(RegExpBuilder::from(&["a"]).with_minimum_repetitions(0))), Some(MIN_REP));
    expect("with_minimum_substring_length(0)", panic_message(|| drop(RegExpBuilder::from(&["a"]).with_minimum_substring_length(0))), Some(MIN_LEN));
    for v in [1u32, 2, 1000, u32::MAX] {
        expect(&format!("with_minimum_repetitions({v})"), panic_message(|| drop(RegExpBuilder::from(&["aaa"]).with_conversion_of_repetitions().with_minimum_repetitions(v).build())), None);
        expect(&format!("with_minimum_substring_length({v})"), panic_message(|| drop(RegExpBuilder::from(&["aaa"]).with_conversion_of_repetitions().with_minimum_substring_length(v).build())), None);
    }
    expect("from(&[\"\"])", panic_message(|| drop(RegExpBuilder::from(&[""]).build())), None);
}

// ---------------------------------------------------------------------------------------------
// large inputs, each in a subprocess (stack overflow and aborts escape catch_unwind)

pub fn large_input(kind: &str, seed: u64) -> Option<(Vec<String>, Settings)> {
    let mut rng = Rng::new(seed, 0x70_7070);
    let ab = gen::alphabet("ab");
    let mixed = gen::alphabet("mixed");
    let word = |rng: &mut Rng, al: &[String], n: usize| -> String { (0..n).map(|_| rng.pick(al).clone()).collect() };
    // kind = <family>:<size>
    let (family, size) = kind.split_once(':')?;
    let n: usize = size.parse().ok()?;
    Some(match family {
        "many_short" => ((0..n).map(|_| { let k = 1 + rng.below(4); word(&mut rng, &mixed, k) }).collect(), Settings::new(0)),
        "many_short_rep_ci" => ((0..n).map(|_| { let k = 1 + rng.below(6); word(&mut rng, &ab, k) }).collect(), Settings::new(REP | CI)),
        "few_long" => ((0..3).map(|_| word(&mut rng, &mixed, n)).collect(), Settings::new(0)),
        "few_long_shared_prefix" => {
            let p = word(&mut rng, &ab, n);
            ((0..4).map(|_| format!("{p}{}", word(&mut rng, &ab, n / 3))).collect(), Settings::new(0))
        }
        "square" => ((0..n).map(|_| word(&mut rng, &ab, n)).collect(), Settings::new(0)),
        "prefix_chain" => ((1..=n).map(|i| "a".repeat(i)).collect(), Settings::new(0)),
        "prefix_chain_mixed" => {
            let w = word(&mut rng, &mixed, n);
            let cs: Vec<char> = w.chars().collect();
            ((1..=cs.len()).map(|i| cs[..i].iter().collect()).collect(), Settings::new(0))
        }
        "unary_rep" => (vec!["a".repeat(n), "a".repeat(n - 1), "ab".repeat(n / 3)], Settings::new(REP)),
        "long_verbose_noanchors" => ((0..6).map(|_| word(&mut rng, &mixed, n)).collect(), Settings::new(VERB | NOSTART | NOEND | CAP)),
        "long_words_noanchors" => ((0..6).map(|_| word(&mut rng, &ab, n)).collect(), Settings::new(WORD | NOSTART | NOEND)),
        "astral_surrogates_noanchors" => ((0..n).map(|_| { let k = 1 + rng.below(6); word(&mut rng, &gen::alphabet("astral"), k) }).collect(), Settings::new(ESC | SURR | NOSTART | NOEND | REP)),
        "colour_verbose" => ((0..n).map(|_| { let k = 1 + rng.below(8); word(&mut rng, &gen::alphabet("sgr"), k) }).collect(), Settings::new(COLOR | VERB | NOSTART | NOEND)),
        // a few prefix-related short test cases (so that the first self-check fails) plus 16 long ones with a
        // class conversion and no end anchor: the candidate expressions approach the regex crate's size limit
        "class_noend_mix" => {
            // distinct one-character heads, one shared tail: the minimised candidate has about n class
            // atoms, the un-minimised one about 16 n
            let mut t: Vec<String> = vec!["+".into(), "+=".into(), "=+".into(), "=+=+".into()];
            // heads and last characters are not word characters, so they stay literal and keep the branches apart
            for (k, h) in "-.:;,'@&!~<>/%#?".chars().enumerate() {
                t.push(format!("{h}{}{}", "a".repeat(n), if k % 2 == 0 { "-" } else { "." }));
            }
            (t, Settings::new(WORD | NOEND))
        }
        "class_noend_mix_digits" => {
            let mut t: Vec<String> = vec!["1".into(), "12".into(), "21".into(), "2121".into()];
            for (k, h) in "bcdefghijklm".chars().enumerate() {
                t.push(format!("{h}{}{}", "7".repeat(n), if k % 2 == 0 { "x" } else { "y" }));
            }
            (t, Settings::new(DIGIT | NSPACE | NOSTART | NOEND))
        }
        "graphemes_long" => ((0..3).map(|_| word(&mut rng, &gen::alphabet("graph"), n)).collect(), Settings::new(REP | ESC)),
        _ => return None,
    })
}

pub const LARGE_QUICK: [&str; 18] = [
    "class_noend_mix:14",
    "class_noend_mix:30",
    "class_noend_mix:60",
    "class_noend_mix:150",
    "class_noend_mix_digits:40",
    "many_short:2000",
    "many_short_rep_ci:2000",
    "few_long:500",
    "few_long_shared_prefix:600",
    "square:60",
    "prefix_chain:300",
    "prefix_chain_mixed:200",
    "unary_rep:200",
    "long_verbose_noanchors:200",
    "long_words_noanchors:800",
    "astral_surrogates_noanchors:400",
    "colour_verbose:400",
    "graphemes_long:300",
];

pub const LARGE_THOROUGH: [&str; 18] = [
    "class_noend_mix:20",
    "class_noend_mix:45",
    "class_noend_mix:100",
    "class_noend_mix:200",
    "class_noend_mix_digits:120",
    "many_short:6000",
    "many_short_rep_ci:8000",
    "few_long:1200",
    "few_long_shared_prefix:2000",
    "square:90",
    "prefix_chain:1500",
    "prefix_chain:3000",
    "prefix_chain_mixed:600",
    "unary_rep:400",
    "long_verbose_noanchors:500",
    "long_words_noanchors:1500",
    "colour_verbose:1500",
    "graphemes_long:700",
];

/// Child mode: `vharness __c07_large <kind> <seed>`; prints one JSON line.
pub fn child_main(kind: &str, seed: u64) -> i32 {
    install_quiet_panic_hook();
    let Some((tcs, s)) = large_input(kind, seed) else { return 2 };
    let t0 = std::time::Instant::now();
    let r = build(&tcs, s);
    let secs = t0.elapsed().as_secs_f64();
    let v = match r {
        Err(p) => json!({"result": "panic", "message": p, "secs": secs}),
        Ok(out) => {
            let verdict = if s.has(SURR) || s.has(COLOR) {
                json!("returned")
            } else {
                match accepted(&out) {
                    Ok(()) => json!("accepted"),
                    Err(Ok(e)) => json!({"syntax_error": e.lines().last().unwrap_or(""), "nest_limit_only": nest_limit_only(&out, &e)}),
                    Err(Err(e)) => json!({"limit": e}),
                }
            };
            json!({"result": "ok", "verdict": verdict, "len": out.len(), "secs": secs, "n_test_cases": tcs.len()})
        }
    };
    println!("{v}");
    0
}

fn large_inputs(ctx: &Ctx, st: &mut Stats) {
    let exe = std::env::current_exe().unwrap();
    let kinds: Vec<&str> = if ctx.thorough { LARGE_QUICK.iter().chain(LARGE_THOROUGH.iter()).copied().collect() } else { LARGE_QUICK.to_vec() };
    let watchdog = std::time::Duration::from_secs(if ctx.thorough { 1200 } else { 120 });
    let mut children = vec![];
    for k in &kinds {
        // address space capped (the largest unchanged-tree child peaks at 2.7 GB): a build that runs away aborts on a
        // failed allocation (inconclusive below) instead of taking the machine down
        let child = Command::new("sh")
            .arg("-c")
            .arg("ulimit -v 16000000; exec \"$0\" __c07_large \"$1\" \"$2\"")
            .arg(&exe)
            .arg(k)
            .arg(ctx.seed().to_string())
            .stdout(Stdio::piped())
            .stderr(Stdio::piped())
            .spawn();
        children.push((k.to_string(), child, std::time::Instant::now()));
    }
    for (kind, child, started) in children {
        st.evaluations += 1;
        let mut child = match child {
            Ok(c) => c,
            Err(e) => {
                st.inconclusive(&format!("spawn: {e}"));
                continue;
            }
        };
        // generous wall-clock watchdog; its firing is inconclusive, never a violation
        let status = loop {
            match child.try_wait() {
                Ok(Some(s)) => break Some(s),
                Ok(None) => {
                    if started.elapsed() > watchdog {
                        let _ = child.kill();
                        let _ = child.wait();
                        break None;
                    }
                    std::thread::sleep(std::time::Duration::from_millis(50));
                }
                Err(_) => break None,
            }
        };
        let mut so = String::new();
        let mut se = String::new();
        use std::io::Read;
        if let Some(mut o) = child.stdout.take() {
            let _ = o.read_to_string(&mut so);
        }
        if let Some(mut e) = child.stderr.take() {
            let _ = e.read_to_string(&mut se);
        }
        let case = json!({"what": "large_input", "kind": kind, "seed": ctx.seed()});
        let Some(status) = status else {
            st.inconclusive(&format!("large input {kind}: watchdog"));
            continue;
        };
        use std::os::unix::process::ExitStatusExt;
        if let Some(sig) = status.signal() {
            if se.contains("memory allocation of") {
                st.inconclusive(&format!("large input {kind}: out of memory"));
            } else if sig == 9 {
                st.inconclusive(&format!("large input {kind}: killed (SIGKILL, probably OOM)"));
            } else {
                st.violation("process_died", format!("large input {kind}: child died on signal {sig}; stderr: {}", se.lines().last().unwrap_or("")), case);
            }
            continue;
        }
        let v: Value = serde_json::from_str(so.lines().last().unwrap_or("")).unwrap_or(json!(null));
        st.count(&format!("large_{kind}"));
        match v["result"].as_str() {
            Some("panic") => st.violation("panic", format!("large input {kind}: build() panicked: {}", v["message"]), case),
            Some("ok") => {
                if let Some(e) = v["verdict"].get("syntax_error") {
                    st.decided += 1;
                    let known = if v["verdict"]["nest_limit_only"] == json!(true) { Some("KF-D13") } else { None };
                    ctx.run.classify(st, known, "invalid_regex", format!("large input {kind}: regex crate rejects the result: {e}"), case);
                } else if v["verdict"].get("limit").is_some() {
                    st.inconclusive(&format!("large input {kind}: compile limit"));
                } else {
                    st.decided += 1;
                    st.distinct.insert(gen::hash_case(&[kind.clone()], Settings::new(0)));
                    st.sample(json!({"large_input": kind, "result": v}));
                }
            }
            _ => st.inconclusive(&format!("large input {kind}: no result line (exit {:?})", status.code())),
        }
    }
}

pub fn replay(ctx: &Ctx, case: &Value) {
    let mut st = Stats::new();
    if case.get("what").and_then(|w| w.as_str()) == Some("large_input") {
        let kind = case["kind"].as_str().unwrap_or("");
        let seed = case["seed"].as_u64().unwrap_or(1);
        child_main(kind, seed);
    } else if case.get("what").is_some() {
        documented_panics(&mut st);
    } else {
        let (tcs, s) = case_from_json(case);
        check_case(ctx, &mut st, &tcs, s);
    }
    ctx.run.merge(st);
}

pub fn rich_inputs() -> Vec<Vec<String>> {
    let v: Vec<Vec<&str>> = vec![
        vec!["I ♥♥♥ 36 and ٣ and 💩💩.", "I ♥ 36", "", "y̆ y̆"],
        vec!["💩", "\u{10ffff}a", "aaa", "ab ab ab 12"],
        vec!["\\", "\\\\", "ൎൎ\\", "a\\b", "^$"],
        vec!["a", "ab", "abc", "abcd", "b"],
        vec!["\u{1b}[0m", "[1;31m", "#x y", "\t\n"],
        vec!["aaa", "aaaa", "aaaaa", "bbb", "ab ab"],
        vec!["É", "é", "İ", "ß", "ẞ"],
        vec!["1", "22", "333", "a1", "1a"],
        vec!["🇩🇪", "🇩", "👩\u{200d}💻", "e\u{301}"],
        vec![" ", "  ", "\u{a0}", "\u{3000}x"],
        vec![""],
        vec!["(a|b)*", "[a-z]+", "x{2,3}", "\\d+"],
    ];
    v.into_iter().map(|t| t.into_iter().map(String::from).collect()).collect()
}

pub fn run(ctx: &Ctx) -> i32 {
    let seed = ctx.seed();
    {
        let mut st = Stats::new();
        documented_panics(&mut st);
        ctx.run.merge(st);
    }
    // full 2^15 lattice on rich inputs
    let inputs = rich_inputs();
    let n_inputs = if ctx.thorough { inputs.len() } else { 3 };
    let first = (seed as usize) % inputs.len();
    par_for(&ctx.run, n_inputs << 15, |i, st| {
        let inp = &inputs[(first + (i >> 15)) % inputs.len()];
        let f = (i & 0x7fff) as u32;
        st.count("full_lattice_builds");
        check_case(ctx, st, inp, Settings::new(f).normalised());
    });
    if std::env::var("VERIF_TIMING").is_ok() { eprintln!("[timing] c07.rs block 1: {:.1}s", ctx.run.started.elapsed().as_secs_f64()); }
    // lattice with thresholds on repeat-rich inputs
    par_for(&ctx.run, if ctx.thorough { 60_000 } else { 6_000 }, |i, st| {
        let mut rng = Rng::new(seed, 0x70_0000 + i as u64);
        let inp = &inputs[rng.below(inputs.len())];
        let mut s = Settings::new((rng.next() as u32) & ALL_FLAGS | REP).normalised();
        s.min_rep = *rng.pick(&gen::THRESHOLDS);
        s.min_len = *rng.pick(&gen::THRESHOLDS);
        st.count("lattice_with_thresholds");
        check_case(ctx, st, inp, s);
    });
    if std::env::var("VERIF_TIMING").is_ok() { eprintln!("[timing] c07.rs block 2: {:.1}s", ctx.run.started.elapsed().as_secs_f64()); }
    // random inputs x random lattice points
    let n = if ctx.thorough { 400_000 } else { 40_000 };
    let alphabets: Vec<(String, Vec<String>)> = gen::ALPHABETS.iter().map(|a| (a.to_string(), gen::alphabet(a))).collect();
    par_for(&ctx.run, n, |i, st| {
        let mut rng = Rng::new(seed, 0x71_0000 + i as u64);
        let (name, al) = &alphabets[i % alphabets.len()];
        let tcs = if rng.chance(1, 4) { gen::repeat_family(&mut rng, al) } else { gen::family(&mut rng, al) };
        let mut s = Settings::new((rng.next() as u32) & ALL_FLAGS).normalised();
        if s.has(REP) {
            let (m, l) = gen::thresholds(&mut rng);
            s.min_rep = m;
            s.min_len = l;
        }
        let tcs: Vec<String> = if s.flags & CLASS_MASK != 0 && s.flags & (NOEND) != 0 { tcs.into_iter().map(|t| t.chars().take(12).collect()).collect() } else { tcs };
        st.count(&format!("random_{name}"));
        check_case(ctx, st, &tcs, s);
    });
    if std::env::var("VERIF_TIMING").is_ok() { eprintln!("[timing] c07.rs block 3: {:.1}s", ctx.run.started.elapsed().as_secs_f64()); }
    // repeated blanks / multi-code-point graphemes at positions without a preceding atom
    let mut det = gen::blank_repeat_cases();
    det.extend(gen::cluster_repeat_cases());
    let det_settings = [VERB | REP, VERB | REP | NOSTART, VERB | REP | CAP, VERB | REP | NOSTART | NOEND, REP, REP | ESC, VERB | REP | CI, REP | DIGIT | NWORD];
    par_for(&ctx.run, det.len() * det_settings.len(), |i, st| {
        st.count("blank_and_cluster_repeat_cases");
        check_case(ctx, st, &det[i % det.len()], Settings::new(det_settings[i / det.len()]));
    });
    if std::env::var("VERIF_TIMING").is_ok() { eprintln!("[timing] c07.rs block 4: {:.1}s", ctx.run.started.elapsed().as_secs_f64()); }
    // periods nested 3, 4 and 5 levels deep around every metacharacter
    let metas = gen::alphabet("meta");
    par_for(&ctx.run, metas.len() * 3 * 4, |i, st| {
        let mut rng = Rng::new(seed, 0x73_0000 + i as u64);
        let m = metas[i % metas.len()].clone();
        let depth = 3 + (i / metas.len()) % 3;
        let t = gen::nested_periods(&mut rng, &[m.clone(), "a".to_string(), m, "b".to_string()], depth);
        let f = [REP, REP | ESC, REP | VERB | CAP, REP | DIGIT | NWORD][i / (metas.len() * 3)];
        st.count("deeply_nested_periods");
        check_case(ctx, st, &[t], Settings::new(f));
    });
    if std::env::var("VERIF_TIMING").is_ok() { eprintln!("[timing] c07.rs block 5: {:.1}s", ctx.run.started.elapsed().as_secs_f64()); }
    // builder histories: setters repeated / overridden, builds interleaved, clones — the result of every build
    // must be valid for the settings accumulated at that point
    let n = if ctx.thorough { 100_000 } else { 3_000 };
    par_for(&ctx.run, n, |i, st| {
        let mut rng = Rng::new(seed, 0x72_0000 + i as u64);
        let (_, al) = &alphabets[i % alphabets.len()];
        let tcs: Vec<String> = gen::family(&mut rng, al).into_iter().map(|t| t.chars().take(10).collect()).collect();
        let (list, ops) = crate::c10::gen_history(&mut rng, &tcs);
        st.evaluations += 1;
        st.count("builder_histories");
        match catch_unwind(AssertUnwindSafe(|| crate::c10::exec_history(&list, &ops))) {
            Err(_) => st.violation("panic", format!("history panicked: {}", take_panic()), json!({"what": "history", "list": list, "ops": format!("{ops:?}")})),
            Ok(results) => {
                st.decided += 1;
                for (k, acc, out, _) in results {
                    if acc.has(SURR) || acc.has(COLOR) {
                        continue;
                    }
                    st.count("history_builds_checked");
                    if let Err(Ok(syntax)) = accepted(&out) {
                        if !nest_limit_only(&out, &syntax) {
                            st.violation(
                                "invalid_regex",
                                format!("after the call history the settings are {:?} but build() (op {k}) returns {:?}: {}", acc.names(), out, syntax.lines().last().unwrap_or("")),
                                json!({"what": "history", "list": list, "ops": format!("{ops:?}"), "output": out}),
                            );
                        }
                    }
                }
            }
        }
    });
    if std::env::var("VERIF_TIMING").is_ok() { eprintln!("[timing] c07.rs block 6: {:.1}s", ctx.run.started.elapsed().as_secs_f64()); }
    {
        let mut st = Stats::new();
        large_inputs(ctx, &mut st);
        ctx.run.merge(st);
    }
    let extra = if ctx.thorough { crate::sanitize::miri_leg(ctx, "c07") } else { json!({"miri_leg": "thorough tier only"}) };
    ctx.run.finish(
        "cases = the full lattice of 2^15 boolean settings (incl. surrogates and highlighting) on 3 (quick) / 12 (thorough) rich fixed inputs, random lattice points with thresholds from {1..6,100,u32::MAX}, random structured families over 10 alphabets x random lattice points, large inputs (hundreds to thousands of test cases, test cases hundreds to thousands of graphemes long, deep prefix chains) each in its own subprocess, and the documented-panic contract; non-trivial = >=2 settings on or a non-trivial input as in C01; distinct by (set of test cases, settings)",
        "per execution catch_unwind around the real build(); unless surrogates/highlighting is on, the result must be accepted by regex::RegexBuilder with the crate's default parser limits (syntax error = violation, size limit = inconclusive); large inputs run in child processes so that stack overflow/abort (death by signal) is observed; watchdog and out-of-memory are inconclusive; from(&[]) and zero thresholds must panic with exactly the documented messages and positive thresholds must not panic; harness and grex are built with overflow checks and debug assertions on",
        &["regex 1.10.6 defines 'accepted'", "resource exhaustion (time, memory) on large inputs is inconclusive, not a violation"],
        extra,
        false,
    )
}
