//! C05 — repetition conversion is notation only: L(build with repetitions) == L(build without).
use crate::cfg::*;
use crate::e2e::{expect_equal, Ctx, Outcome};
use crate::gen::{self, Rng};
use crate::report::*;
use serde_json::json;

pub const BASE_ALLOWED: u32 = CLASS_MASK | CI | ESC | VERB | CAP | NOSTART | NOEND;

pub fn check_case(ctx: &Ctx, st: &mut Stats, tcs: &[String], s: Settings) {
    st.evaluations += 1;
    let s1 = s.or(REP);
    let s0 = Settings::new(s.flags & !REP);
    let (r1, ev1) = build_ev(tcs, s1);
    let (r0, ev0) = build_ev(tcs, s0);
    let (out1, out0) = match (r1, r0) {
        (Ok(a), Ok(b)) => (a, b),
        (Err(p), _) | (_, Err(p)) => {
            st.violation("panic", format!("build() panicked: {p}"), case_json(tcs, s1));
            return;
        }
    };
    let has_quantifier = out1 != out0;
    let o = expect_equal(
        ctx,
        st,
        "repetition_conversion_changes_language",
        &wrap_full(&out1, s1),
        &wrap_full(&out0, s0),
        tcs,
        s1,
        &out1,
        &ev1,
        json!({"output_without_repetitions": out0}),
        Some((s0, &out0, &ev0)),
    );
    if o != Outcome::Inconclusive {
        st.decided += 1;
        if has_quantifier {
            st.count("outputs_with_quantifier_notation");
            st.distinct.insert(gen::hash_case(tcs, s1));
        }
    }
    if o == Outcome::Held && has_quantifier {
        st.sample(json!({"test_cases": tcs, "settings": s1.to_json(), "with": out1, "without": out0, "verdict": "languages equal"}));
    }
}

pub fn replay(ctx: &Ctx, case: &serde_json::Value) {
    let (tcs, s) = case_from_json(case);
    let mut st = Stats::new();
    check_case(ctx, &mut st, &tcs, s);
    ctx.run.merge(st);
}

pub fn run(ctx: &Ctx) -> i32 {
    let seed = ctx.seed();
    // exhaustive: subsets of {a,b}^<=4 (non-empty words), size <= 2 (quick) / 3 (thorough), all (m,l) in 1..=2 / 1..=3
    let words: Vec<String> = gen::words(&["a", "b"], 4).into_iter().filter(|w| !w.is_empty()).collect();
    let subs = gen::subsets(words.len(), if ctx.thorough { 3 } else { 2 });
    let th: Vec<(u32, u32)> = if ctx.thorough { vec![(1, 1), (1, 2), (2, 1), (2, 2), (3, 1), (1, 3)] } else { vec![(1, 1), (2, 1), (1, 2)] };
    par_for(&ctx.run, subs.len() * th.len(), |i, st| {
        let tcs = gen::pick_subset(&words, subs[i % subs.len()]);
        let (m, l) = th[i / subs.len()];
        st.count("exhaustive_ab4");
        check_case(ctx, st, &tcs, Settings::with(REP, m, l));
    });
    // unary / periodic families sharing a prefix: a^i b, a^j c, (ab)^i c ... for all small i, j
    let mut fam: Vec<Vec<String>> = vec![];
    for i in 1..=5usize {
        for j in 1..=5usize {
            fam.push(vec![format!("{}b", "a".repeat(i)), format!("{}c", "a".repeat(j))]);
            fam.push(vec!["a".repeat(i), format!("{}b", "a".repeat(j))]);
            fam.push(vec![format!("{}c", "ab".repeat(i)), format!("{}d", "ab".repeat(j))]);
            fam.push(vec![format!("x{}", "a".repeat(i)), format!("x{}y", "a".repeat(j)), "x".to_string()]);
            fam.push(vec![format!("{}c", "aab".repeat(i)), format!("{}", "aab".repeat(j))]);
            fam.push(vec![format!("{}{}", "a".repeat(i), "b".repeat(j)), format!("{}{}", "a".repeat(j), "b".repeat(i))]);
        }
    }
    let th2: Vec<(u32, u32)> = (1..=4).flat_map(|m| (1..=4).map(move |l| (m, l))).chain([(u32::MAX, 1), (1, u32::MAX), (100, 100)]).collect();
    let step = if ctx.thorough { 1 } else { 3 };
    par_for(&ctx.run, fam.len() * th2.len() / step, |k, st| {
        let i = k * step + (seed as usize % step);
        let tcs = &fam[i % fam.len()];
        let (m, l) = th2[(i / fam.len()) % th2.len()];
        st.count("prefix_sharing_families");
        check_case(ctx, st, tcs, Settings::with(REP, m, l));
    });
    // repeated multi-code-point graphemes and repeated blanks x presentation / class settings
    let mut det = gen::cluster_repeat_cases();
    det.extend(gen::blank_repeat_cases());
    let det_settings = [0, ESC, DIGIT, WORD, NWORD, VERB, CAP, CI | ESC, VERB | CAP, NOEND];
    par_for(&ctx.run, det.len() * det_settings.len(), |i, st| {
        st.count("cluster_and_blank_repeat_cases");
        check_case(ctx, st, &det[i % det.len()], Settings::new(REP | det_settings[i / det.len()]));
    });
    // medium-sized inputs: many / long test cases, many distinct symbols, long repeats, deep prefix chains
    {
        let n = if ctx.thorough { 6000 } else { 400 };
        let names = ["ab", "abc", "mixed", "meta", "clusters"];
        let als: Vec<Vec<String>> = names.iter().map(|a| gen::alphabet(a)).collect();
        par_for(&ctx.run, n, |i, st| {
            let mut rng = Rng::new(seed, 0x51_0000 + i as u64);
            let tcs = gen::medium_family(&mut rng, &als[i % als.len()]);
            let tcs: Vec<String> = tcs.into_iter().filter(|t| !t.is_empty()).collect();
            if tcs.is_empty() {
                return;
            }
            st.count("medium_sized_inputs");
            let (m, l) = gen::thresholds(&mut rng);
            check_case(ctx, st, &tcs, Settings::with(REP | if i % 4 == 0 { CAP | VERB } else { 0 }, m, l));
        });
    }
    // literal text resembling class tokens next to members of that class
    {
        let look = gen::token_lookalike_cases();
        let extra = [0, REP, REP | ESC, REP | VERB, REP | CAP, CI];
        par_for(&ctx.run, look.len() * extra.len(), |i, st| {
            let (tcs, f) = &look[i % look.len()];
            st.count("token_lookalike_cases");
            check_case(ctx, st, tcs, Settings::new(f | extra[i / look.len()]));
        });
    }
    // whole test cases that are one long run of a single grapheme or short unit (64..300 repeats)
    {
        let units = ["a", "-", "ab", "\u{1f4a9}", "xyz"];
        let lens: Vec<usize> = if ctx.thorough { vec![63, 64, 65, 100, 128, 129, 250] } else { vec![63, 64, 65, 100, 128, 129] };
        par_for(&ctx.run, units.len() * lens.len() * 3, |i, st| {
            let u = units[i % units.len()];
            let n = (lens[(i / units.len()) % lens.len()] / u.chars().count()).max(2);
            let k = i / (units.len() * lens.len());
            let tcs = if k == 0 { vec![u.repeat(n)] } else { vec![u.repeat(n), format!("{}z{}", u.repeat(n / 3), u.repeat(n / 3))] };
            st.count("long_run_inputs");
            check_case(ctx, st, &tcs, Settings::with(REP, 1 + k as u32, 1 + (k as u32 % 2)));
        });
    }
    // prefixes followed by different sets of repeat counts (all pairs of subsets of {1..5})
    {
        let cs = gen::count_set_cases();
        let step = if ctx.thorough { 1 } else { 1 };
        par_for(&ctx.run, cs.len() / step, |k, st| {
            let i = k * step + (seed as usize % step);
            st.count("count_set_cases");
            check_case(ctx, st, &cs[i], Settings::new(REP));
            if i % 5 == 0 {
                check_case(ctx, st, &cs[i].iter().map(|t| format!("{t}z")).collect::<Vec<_>>(), Settings::with(REP, 1, 1));
            }
        });
    }
    // prefixes x^i y^j that fold into shared trie states under repetition conversion
    {
        let n = if ctx.thorough { 100000 } else { 5000 };
        par_for(&ctx.run, n, |i, st| {
            let mut rng = Rng::new(seed, 0x52_0000 + i as u64);
            let tcs = gen::merged_prefix_family(&mut rng, if i % 2 == 0 { &["a", "b"] } else { &["a", "b", "c"] });
            st.count("merged_prefix_families");
            check_case(ctx, st, &tcs, Settings::new(REP));
        });
    }
    // test cases of more than 512 graphemes where only a part is periodic (windowed searches would show here)
    {
        let distinct: String = (0..300u32).filter_map(|k| char::from_u32(0x4e00 + k)).collect();
        let cases: Vec<Vec<String>> = if ctx.thorough {
            vec![vec![format!("{}xyz", "ab".repeat(256))], vec![format!("{distinct}{}zz", "q".repeat(215))], vec![format!("{}{}", "abc".repeat(100), distinct)], vec![format!("{distinct}{}", "ab".repeat(330))]]
        } else {
            vec![vec![format!("{}xyz", "ab".repeat(256))], vec![format!("{distinct}{}zz", "q".repeat(215))]]
        };
        par_for(&ctx.run, cases.len(), |i, st| {
            st.count("partly_periodic_over_512_graphemes");
            check_case(ctx, st, &cases[i], Settings::new(REP));
        });
    }
    // one long test case without immediate repetitions except at a junction placed on / next to a size at which
    // windows, chunks and caches tend to end (64 ... 1024 graphemes)
    {
        let mut cases: Vec<(String, Settings)> = vec![];
        let bounds: &[usize] = if ctx.thorough { &[64, 128, 256, 300, 512, 1000, 1024] } else { &[128, 256, 512] };
        for (j, (name, _, _, _)) in gen::JUNCTIONS.iter().enumerate() {
            let cls = if name.ends_with("digits") { DIGIT } else if name.ends_with("letters") { WORD } else if name.ends_with("blanks") { SPACE } else { 0 };
            for b in bounds {
                for d in [-1isize, 0, 1] {
                    cases.push((gen::boundary_case(j, *b, d, 9 + j), Settings::new(REP | cls)));
                }
            }
            if !ctx.thorough && j % 3 == (seed as usize) % 3 {
                cases.push((gen::boundary_case(j, 1024, 0, 9 + j), Settings::new(REP | cls)));
            }
        }
        par_for(&ctx.run, cases.len(), |i, st| {
            st.count("junctions_at_window_sizes");
            check_case(ctx, st, &[cases[i].0.clone()], cases[i].1);
        });
    }
    // random repeat-rich families x other settings
    let n = if ctx.thorough { 300_000 } else { 12_000 };
    let names = ["ab", "abc", "meta", "graph", "astral", "classes", "case", "ws", "clusters", "tokens"];
    let alphabets: Vec<(String, Vec<String>)> = names.iter().map(|a| (a.to_string(), gen::alphabet(a))).collect();
    par_for(&ctx.run, n, |i, st| {
        let mut rng = Rng::new(seed, 0x50_0000 + i as u64);
        let (name, al) = &alphabets[i % alphabets.len()];
        let tcs = if rng.chance(2, 3) { gen::repeat_family(&mut rng, al) } else { gen::family(&mut rng, al) };
        let heavy = matches!(name.as_str(), "classes" | "case" | "ws" | "graph");
        let allowed = if i % 3 == 0 { 0 } else if heavy { BASE_ALLOWED } else { BASE_ALLOWED & !CLASS_MASK | DIGIT | NWORD };
        let mut s = gen::settings(&mut rng, allowed);
        let tcs: Vec<String> = if s.flags & CLASS_MASK != 0 { tcs.into_iter().map(|t| t.chars().take(10).collect()).take(4).collect() } else { tcs };
        let (m, l) = gen::thresholds(&mut rng);
        s.min_rep = m;
        s.min_len = l;
        st.count(&format!("random_{name}"));
        check_case(ctx, st, &tcs, s);
    });
    ctx.run.finish(
        "cases = subsets of {a,b}^<=4 x thresholds, prefix-sharing unary/periodic families a^i b | a^j c etc. for all i,j<=5 x (min_repetitions, min_substring_length) in 1..=4 x 1..=4 plus huge values, random repeat-rich families (unary, periodic, nested periods) over 8 alphabets x class/case/escape/verbose/capture/anchor settings; non-trivial = the output with repetition conversion actually differs from the one without (a quantifier was produced); distinct by (set of test cases, settings)",
        "per execution DFA equivalence of build(cfg + repetitions) and build(cfg); differences are attributed to a pipeline stage through the hook event log so that only the listed known defect (trie insertion folding, KF-D3) is recognised and every other stage changing the language is a violation",
        &["regex-syntax/regex-automata define what both patterns denote", "the D3 classifier is an executable model of the defective folding rule in Dfa::find_next_state"],
        json!({}),
        false,
    )
}
