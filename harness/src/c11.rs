//! C11 — non-ASCII escaping is complete, well-formed and reversible.
use crate::cfg::*;
use crate::e2e::{expect_equal, Ctx, Outcome};
use crate::gen::{self, Rng};
use crate::report::*;
use serde_json::json;

#[derive(Debug)]
pub struct Decoded {
    pub pattern: String,
    pub escapes: usize,
    pub pairs: usize,
    pub problems: Vec<String>,
}

/// Tokenises the escaped output: skips `\\`, reads `\u{h}`, re-pairs high+low surrogates, and
/// rewrites every escape to `\x{H}` so that the regex crate can say what the pattern denotes.
pub fn decode(out: &str, surrogates: bool) -> Decoded {
    let c: Vec<char> = out.chars().collect();
    let mut d = Decoded { pattern: String::new(), escapes: 0, pairs: 0, problems: vec![] };
    let mut i = 0;
    let mut class_depth = 0usize;
    let read = |i: usize| -> Option<(u32, usize)> {
        // `\u{h+}` at i
        if c.get(i) == Some(&'\\') && c.get(i + 1) == Some(&'u') && c.get(i + 2) == Some(&'{') {
            let mut j = i + 3;
            let mut v: u32 = 0;
            let mut n = 0;
            while let Some(h) = c.get(j).and_then(|x| x.to_digit(16)) {
                v = v.checked_mul(16)?.checked_add(h)?;
                n += 1;
                j += 1;
            }
            if n > 0 && c.get(j) == Some(&'}') {
                return Some((v, j + 1 - i));
            }
        }
        None
    };
    while i < c.len() {
        if c[i] == '\\' {
            if let Some((v, len)) = read(i) {
                d.escapes += 1;
                if v < 0x80 {
                    d.problems.push(format!("ASCII code point escaped as \\u{{{v:x}}}"));
                }
                if (0xD800..0xDC00).contains(&v) {
                    // high surrogate: must be followed by a low one
                    match read(i + len) {
                        Some((lo, len2)) if (0xDC00..0xE000).contains(&lo) => {
                            if !surrogates {
                                d.problems.push("surrogate escapes although surrogate pairs were not requested".into());
                            }
                            let cp = 0x10000 + ((v - 0xD800) << 10) + (lo - 0xDC00);
                            d.pairs += 1;
                            d.escapes += 1;
                            if class_depth > 0 {
                                d.problems.push(format!("surrogate pair for U+{cp:X} inside a character class (denotes two code units, not one character)"));
                            }
                            if let Some(q) = c.get(i + len + len2) {
                                if "{?*+".contains(*q) {
                                    d.problems.push(format!("quantifier '{q}' directly after the surrogate pair for U+{cp:X} applies to the low surrogate only"));
                                }
                            }
                            d.pattern.push_str(&format!("\\x{{{cp:X}}}"));
                            i += len + len2;
                            continue;
                        }
                        _ => {
                            d.problems.push(format!("unpaired high surrogate \\u{{{v:x}}}"));
                            d.pattern.push_str("\\x{FFFD}");
                            i += len;
                            continue;
                        }
                    }
                }
                if (0xDC00..0xE000).contains(&v) {
                    d.problems.push(format!("low surrogate \\u{{{v:x}}} without preceding high surrogate"));
                    d.pattern.push_str("\\x{FFFD}");
                    i += len;
                    continue;
                }
                if v > 0x10FFFF {
                    d.problems.push(format!("escape \\u{{{v:x}}} is not a code point"));
                    i += len;
                    continue;
                }
                if surrogates && v >= 0x10000 {
                    d.problems.push(format!("astral code point \\u{{{v:x}}} not converted to a surrogate pair"));
                }
                d.pattern.push_str(&format!("\\x{{{v:X}}}"));
                i += len;
                continue;
            }
            // any other escape: copy both characters verbatim
            d.pattern.push(c[i]);
            if let Some(n) = c.get(i + 1) {
                d.pattern.push(*n);
            }
            i += 2;
            continue;
        }
        if c[i] == '[' {
            class_depth += 1;
        } else if c[i] == ']' && class_depth > 0 {
            class_depth -= 1;
        }
        d.pattern.push(c[i]);
        i += 1;
    }
    d
}

pub fn check_case(ctx: &Ctx, st: &mut Stats, tcs: &[String], s: Settings) {
    let s = s.or(ESC).without(COLOR);
    st.evaluations += 1;
    let (res, ev) = build_ev(tcs, s);
    let out = match res {
        Ok(o) => o,
        Err(p) => {
            st.violation("panic", format!("build() panicked: {p}"), case_json(tcs, s));
            return;
        }
    };
    let mut case = case_json(tcs, s);
    case["output"] = json!(out);
    if !out.is_ascii() {
        let bad: String = out.chars().filter(|c| !c.is_ascii()).take(5).collect();
        st.violation("non_ascii_in_output", format!("escaped output contains non-ASCII characters {:?}: {:?}", bad, out), case.clone());
    }
    let d = decode(&out, s.has(SURR));
    st.add("escapes_observed", d.escapes as u64);
    st.add("surrogate_pairs_observed", d.pairs as u64);
    if !d.problems.is_empty() {
        st.violation("malformed_escapes", format!("{} in {:?}", d.problems.join("; "), out), case.clone());
    }
    // completeness: the number of non-ASCII code points the pattern has to mention
    let s_plain = s.without(ESC | SURR);
    let (res0, ev0) = build_ev(tcs, s_plain);
    let Ok(out0) = res0 else {
        st.violation("panic", "unescaped build() panicked".into(), case_json(tcs, s_plain));
        return;
    };
    let o = expect_equal(
        ctx,
        st,
        "decoded_pattern_differs_from_unescaped_build",
        &wrap_full(&d.pattern, s),
        &wrap_full(&out0, s_plain),
        tcs,
        s,
        &out,
        &ev,
        json!({"decoded": d.pattern, "unescaped_output": out0}),
        Some((s_plain, &out0, &ev0)),
    );
    if o != Outcome::Inconclusive {
        st.decided += 1;
        if d.escapes > 0 {
            st.distinct.insert(gen::hash_case(tcs, s));
        }
        if d.pairs > 0 {
            st.count("cases_with_surrogate_pairs");
        }
    }
    if o == Outcome::Held && d.escapes > 0 {
        st.sample(json!({"test_cases": tcs, "settings": s.names(), "output": out, "decoded": d.pattern, "unescaped": out0, "verdict": "languages equal"}));
    }
}

/// The escaping setter called twice with different arguments: the last call decides, exactly as if
/// only that call had been made.
fn setter_history(st: &mut Stats, tcs: &[String], other: u32) {
    use grex::RegExpBuilder;
    for (first, last) in [(true, false), (false, true)] {
        st.evaluations += 1;
        let want = build(tcs, Settings::new(other | ESC | if last { SURR } else { 0 }));
        let got = std::panic::catch_unwind(std::panic::AssertUnwindSafe(|| {
            let mut b = RegExpBuilder::from(tcs);
            Settings::new(other & !(ESC | SURR)).apply(&mut b);
            b.with_escaping_of_non_ascii_chars(first);
            let _ = b.clone().build();
            b.with_escaping_of_non_ascii_chars(last);
            b.build()
        }));
        match (want, got) {
            (Ok(w), Ok(g)) => {
                st.decided += 1;
                st.count("escape_setter_histories");
                if w != g {
                    let mut case = case_json(tcs, Settings::new(other | ESC | if last { SURR } else { 0 }));
                    case["what"] = json!("setter_history");
                    case["history"] = json!([first, last]);
                    st.violation(
                        "escape_setter_history",
                        format!("with_escaping_of_non_ascii_chars({first}) then ({last}) gives {:?}, a single call with {last} gives {:?}", g, w),
                        case,
                    );
                }
            }
            _ => st.inconclusive("panic in setter history (C07's concern)"),
        }
    }
}

pub fn replay(ctx: &Ctx, case: &serde_json::Value) {
    let (tcs, s) = case_from_json(case);
    let mut st = Stats::new();
    check_case(ctx, &mut st, &tcs, s);
    ctx.run.merge(st);
}

/// Cheap sweep variant: structure only + exact expected text for a single code point.
fn sweep(st: &mut Stats, c: char, surr: bool) {
    st.evaluations += 1;
    let tcs = [c.to_string()];
    let s = Settings::new(ESC | if surr { SURR } else { 0 });
    match build(&tcs, s) {
        Err(p) => st.violation("panic", format!("build() panicked: {p}"), case_json(&tcs, s)),
        Ok(out) => {
            st.decided += 1;
            st.count("scalar_sweep");
            st.distinct.insert(((c as u64) << 1) | surr as u64);
            let v = c as u32;
            let expected = if surr && v >= 0x10000 {
                let u = v - 0x10000;
                format!("^\\u{{{:x}}}\\u{{{:x}}}$", 0xD800 + (u >> 10), 0xDC00 + (u & 0x3ff))
            } else {
                format!("^\\u{{{:x}}}$", v)
            };
            if out != expected {
                // same escapes in another spelling (e.g. upper-case hex digits, a non-capturing group)?
                let d = decode(&out, surr);
                let e = decode(&expected, surr);
                if out.is_ascii() && d.problems.is_empty() && d.escapes == e.escapes && matches!(crate::oracle::compare(&d.pattern, &e.pattern), crate::oracle::Cmp::Equal) {
                    st.count("equivalent_rendering");
                    return;
                }
                let mut case = case_json(&tcs, s);
                case["output"] = json!(out);
                case["expected"] = json!(expected);
                st.violation("wrong_escape", format!("U+{:04X}: got {:?}, expected {:?}", v, out, expected), case);
            }
        }
    }
}

pub const OTHER: u32 = CLASS_MASK | REP | CI | VERB | CAP | NOSTART | NOEND;

pub fn run(ctx: &Ctx) -> i32 {
    let seed = ctx.seed();
    let astral = gen::alphabet("astral");
    // small exhaustive: every pair of boundary code points, repeated, both modes
    let mut combos: Vec<Vec<String>> = vec![];
    for (i, a) in astral.iter().enumerate() {
        combos.push(vec![a.clone()]);
        combos.push(vec![a.repeat(3)]);
        combos.push(vec![a.repeat(2), a.repeat(4), a.clone()]);
        for b in &astral[i + 1..] {
            combos.push(vec![a.clone(), b.clone()]);
            combos.push(vec![format!("{a}{b}"), format!("{a}{b}{a}{b}{a}{b}"), format!("{b}{a}")]);
        }
    }
    let mods: Vec<u32> = if ctx.thorough { vec![0, REP, VERB, CI, CAP, REP | VERB | CAP, NWORD, NOSTART | NOEND, REP | NOEND] } else { vec![0, REP, REP | VERB | CAP] };
    par_for(&ctx.run, combos.len() * mods.len() * 2, |i, st| {
        let tcs = &combos[i % combos.len()];
        let m = mods[(i / combos.len()) % mods.len()];
        let surr = if i / (combos.len() * mods.len()) == 1 { SURR } else { 0 };
        st.count("boundary_code_point_sets");
        check_case(ctx, st, tcs, Settings::new(m | surr));
    });
    // periods nested 3-5 levels deep whose innermost unit is non-ASCII
    {
        let inner = ["\u{e4}", "\u{1f4a9}", "\u{ffff}", "\u{10000}", "\u{3b1}"];
        par_for(&ctx.run, inner.len() * 3 * 4, |i, st| {
            let mut rng = Rng::new(seed, 0x112_0000 + i as u64);
            let x = inner[i % inner.len()].to_string();
            let depth = 3 + (i / inner.len()) % 3;
            let t = gen::nested_periods(&mut rng, &[x.clone(), "b".to_string(), x, "c".to_string()], depth);
            let f = [REP, REP | SURR, REP | VERB, REP | CAP][i / (inner.len() * 3)];
            st.count("deeply_nested_non_ascii");
            check_case(ctx, st, &[t], Settings::new(f));
        });
    }
    let det = gen::cluster_repeat_cases();
    let det_settings = [REP, REP | SURR, REP | VERB, REP | CAP | SURR, 0, REP | DIGIT, REP | NOEND];
    par_for(&ctx.run, det.len() * det_settings.len(), |i, st| {
        st.count("cluster_repeat_cases");
        check_case(ctx, st, &det[i % det.len()], Settings::new(det_settings[i / det.len()]));
    });
    // medium-sized inputs: many / long test cases, many distinct symbols, long repeats, deep prefix chains
    {
        let n = if ctx.thorough { 4000 } else { 300 };
        let names = ["astral", "mixed", "graph", "clusters"];
        let als: Vec<Vec<String>> = names.iter().map(|a| gen::alphabet(a)).collect();
        par_for(&ctx.run, n, |i, st| {
            let mut rng = Rng::new(seed, 0x111_0000 + i as u64);
            let tcs = gen::medium_family(&mut rng, &als[i % als.len()]);
            let tcs: Vec<String> = tcs.into_iter().filter(|t| !t.is_empty()).collect();
            if tcs.is_empty() {
                return;
            }
            st.count("medium_sized_inputs");
            let s = Settings::new((if i % 2 == 0 { SURR } else { 0 }) | (if i % 3 == 0 { REP } else { 0 }) | (if i % 7 == 0 { VERB } else { 0 }));
            check_case(ctx, st, &tcs, s);
        });
    }
    let n = if ctx.thorough { 150_000 } else { 8_000 };
    let names = ["astral", "mixed", "graph", "case", "ws", "classes", "clusters", "tokens"];
    let alphabets: Vec<(String, Vec<String>)> = names.iter().map(|a| (a.to_string(), gen::alphabet(a))).collect();
    par_for(&ctx.run, n, |i, st| {
        let mut rng = Rng::new(seed, 0x110_0000 + i as u64);
        let (name, al) = if i % 2 == 0 { &alphabets[0] } else { &alphabets[i % alphabets.len()] };
        let tcs = if rng.chance(1, 3) { gen::repeat_family(&mut rng, al) } else { gen::family(&mut rng, al) };
        let mut s = if i % 3 == 0 { Settings::new(0) } else { gen::settings(&mut rng, OTHER) };
        let tcs: Vec<String> = if s.flags & CLASS_MASK != 0 { tcs.into_iter().map(|t| t.chars().take(8).collect()).take(4).collect() } else { tcs };
        if rng.chance(1, 2) {
            s.flags |= SURR;
        }
        st.count(&format!("random_{name}"));
        check_case(ctx, st, &tcs, s);
        if i % 8 == 0 {
            setter_history(st, &tcs, s.flags & (REP | VERB | CAP));
        }
    });
    // sweep of every non-ASCII scalar in both modes
    let stride = if ctx.thorough { 1 } else { 17 };
    let offset = (seed % stride as u64) as u32;
    let scalars: Vec<char> = (0x80..=0x10FFFFu32).filter(|c| ctx.thorough || c % stride == offset || (0xFF00..0x10100).contains(c) || *c >= 0x10FF00 || *c < 0x400).filter_map(char::from_u32).collect();
    par_for(&ctx.run, scalars.len(), |i, st| {
        sweep(st, scalars[i], false);
        sweep(st, scalars[i], true);
    });
    ctx.run.finish(
        "cases = every single boundary code point (U+007F/80, U+00E9, U+0100, U+0FFF/1000, U+D7FF/E000, U+FFFF/10000, U+FFFFF/100000, U+10FFFE/10FFFF ...), every pair, repeated (so that quantifier grouping of escaped units is exercised) x {escape, escape with surrogates} x {repetition, verbose, capture, classes, anchors}; random families over astral/grapheme/case/blank alphabets x random other settings x surrogate flag; a sweep of non-ASCII scalars (seeded stride + all boundary regions quick, every scalar thorough) as one-character test cases in both modes; non-trivial = the output contains at least one escape; distinct by (set of test cases, settings)",
        "per execution: the output must be pure ASCII; a tokenizer skips \\\\, reads \\u{h}, re-pairs high+low surrogates and reports unpaired/mis-ordered surrogates, escaped ASCII, astral \\u{h} under the surrogate option, pairs inside character classes and quantifiers bound to a low surrogate; the decoded pattern must be language-equal (DFA equivalence) to the unescaped build of the same settings; the sweep compares the exact expected escape text",
        &["the decoded pattern is interpreted by regex-syntax"],
        json!({"scalar_sweep_exhaustive": ctx.thorough}),
        false,
    )
}
