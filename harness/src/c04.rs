//! C04 — case-insensitive option: (?i) flag present, language = case variants (engine's simple
//! folding) of the original test cases, case-only variants collapse.
use crate::cfg::*;
use crate::e2e::{expect_equal, Ctx, Outcome};
use crate::gen::{self, Rng};
use crate::oracle::real_regex;
use crate::report::*;
use crate::spec;
use regex_syntax::ast::{Ast, Flag, FlagsItemKind};
use serde_json::json;

/// Does the pattern start with a flags item that switches `i` on?
fn starts_with_ci_flag(out: &str) -> Result<bool, String> {
    let ast = regex_syntax::ast::parse::ParserBuilder::new().nest_limit(5000).build().parse(out).map_err(|e| e.to_string())?;
    let first = match &ast {
        Ast::Concat(c) => c.asts.first(),
        other => Some(other),
    };
    Ok(match first {
        Some(Ast::Flags(f)) => {
            let mut negated = false;
            let mut on = false;
            for it in &f.flags.items {
                match it.kind {
                    FlagsItemKind::Negation => negated = true,
                    FlagsItemKind::Flag(Flag::CaseInsensitive) if !negated => on = true,
                    _ => {}
                }
            }
            on
        }
        _ => false,
    })
}

pub fn check_case(ctx: &Ctx, st: &mut Stats, tcs: &[String], s: Settings) {
    let s = s.or(CI);
    st.evaluations += 1;
    let (res, ev) = build_ev(tcs, s);
    let out = match res {
        Ok(o) => o,
        Err(p) => {
            st.violation("panic", format!("build() panicked: {p}"), case_json(tcs, s));
            return;
        }
    };
    match starts_with_ci_flag(&out) {
        Ok(true) => st.count("flag_present"),
        Ok(false) => {
            let mut case = case_json(tcs, s);
            case["output"] = json!(out);
            st.violation("ci_flag_missing", format!("pattern {:?} does not start with a flags item enabling i", out), case);
        }
        Err(e) => {
            let mut case = case_json(tcs, s);
            case["output"] = json!(out);
            st.violation("invalid_pattern", e, case);
            return;
        }
    }
    let sp = spec::spec(&ctx.classes, tcs, s);
    let o = expect_equal(ctx, st, "language_differs_from_case_variants", &wrap_full(&out, s), &sp, tcs, s, &out, &ev, json!(null), None);
    if o != Outcome::Inconclusive {
        st.decided += 1;
        let cased = tcs.iter().flat_map(|t| t.chars()).filter(|c| c.is_lowercase() || c.is_uppercase()).count();
        if cased > 0 {
            st.distinct.insert(gen::hash_case(tcs, s));
        }
    }
    if o == Outcome::Held {
        st.sample(json!({"test_cases": tcs, "settings": s.names(), "output": out, "spec": sp, "verdict": "languages equal"}));
    }
}

/// A re-casing of `t` that std lower-cases to the same string and that the engine folds onto `t`.
fn case_variant(rng: &mut Rng, t: &str) -> Option<String> {
    let lower = t.to_lowercase();
    if lower.chars().count() != t.chars().count() {
        return None;
    }
    let mut v = String::new();
    let mut changed = false;
    for c in t.chars() {
        let mut alt = None;
        if rng.chance(1, 2) {
            let mut u = c.to_uppercase();
            if let (Some(x), None) = (u.next(), u.next()) {
                if x != c {
                    alt = Some(x);
                }
            }
            if alt.is_none() {
                let mut l = c.to_lowercase();
                if let (Some(x), None) = (l.next(), l.next()) {
                    if x != c {
                        alt = Some(x);
                    }
                }
            }
        }
        match alt {
            Some(x) => {
                changed = true;
                v.push(x)
            }
            None => v.push(c),
        }
    }
    if !changed || v.to_lowercase() != lower || v.chars().count() != t.chars().count() {
        return None;
    }
    // the engine must fold both spellings onto the lower-cased form (otherwise grex keeps the
    // original letters and the two test cases legitimately stay apart)
    let re = real_regex(&format!("(?i)^{}$", spec::lit_str(&lower))).ok()?;
    if re.is_match(t) && re.is_match(&v) {
        Some(v)
    } else {
        None
    }
}

pub fn collapse_case(_ctx: &Ctx, st: &mut Stats, rng: &mut Rng, tcs: &[String], s: Settings) {
    let s = s.or(CI);
    let idx = rng.below(tcs.len());
    let Some(v) = case_variant(rng, &tcs[idx]) else {
        st.count("collapse_no_variant");
        return;
    };
    st.evaluations += 1;
    let mut with = tcs.to_vec();
    with.insert(rng.below(with.len() + 1), v.clone());
    match (build(tcs, s), build(&with, s)) {
        (Ok(a), Ok(b)) => {
            st.decided += 1;
            st.count("collapse_checks");
            st.distinct.insert(gen::hash_case(&with, s));
            if a != b {
                let mut case = case_json(tcs, s);
                case["variant"] = json!(v);
                case["output"] = json!(a);
                case["output_with_variant"] = json!(b);
                st.violation("case_variant_does_not_collapse", format!("adding {:?} (case variant of {:?}) changes {:?} into {:?}", v, tcs[idx], a, b), case);
            }
        }
        (Err(p), _) | (_, Err(p)) => st.violation("panic", format!("build() panicked: {p}"), case_json(&with, s)),
    }
}

/// build() first without the option, then enable it and build again (also on a clone): the result must be
/// the one a fresh builder gives, in particular case variants must collapse.
fn history_collapse(st: &mut Stats, tcs: &[String], s: Settings) {
    use grex::RegExpBuilder;
    let s_ci = s.or(CI);
    let fresh = build(tcs, s_ci);
    let r = std::panic::catch_unwind(std::panic::AssertUnwindSafe(|| {
        let mut b = RegExpBuilder::from(tcs);
        s.without(CI).apply(&mut b);
        let _first = b.build();
        b.with_case_insensitive_matching();
        let second = b.build();
        let cloned = b.clone().build();
        (second, cloned)
    }));
    st.evaluations += 1;
    match (fresh, r) {
        (Ok(f), Ok((second, cloned))) => {
            st.decided += 1;
            st.count("history_collapse_checks");
            if second != f || cloned != f {
                let mut case = case_json(tcs, s_ci);
                case["what"] = json!("history_collapse");
                case["fresh"] = json!(f);
                case["after_history"] = json!(second);
                case["clone_after_history"] = json!(cloned);
                st.violation("case_variants_do_not_collapse_after_history", format!("build(); with_case_insensitive_matching(); build() gives {:?}, a fresh builder gives {:?}", second, f), case);
            }
        }
        _ => st.inconclusive("panic in history collapse probe (C07's concern)"),
    }
}

fn sweep(st: &mut Stats, c: char, flags: u32) {
    st.evaluations += 1;
    let tcs = vec![c.to_string()];
    let s = Settings::new(CI | flags);
    match build(&tcs, s) {
        Err(p) => st.violation("panic", format!("build() panicked: {p}"), case_json(&tcs, s)),
        Ok(out) => match real_regex(&out) {
            Err(e) => {
                let mut case = case_json(&tcs, s);
                case["output"] = json!(out);
                st.violation("invalid_pattern", e.to_string(), case)
            }
            Ok(re) => {
                st.decided += 1;
                st.count("scalar_sweep");
                if c.is_lowercase() || c.is_uppercase() {
                    st.count("scalar_sweep_cased");
                    st.distinct.insert(gen::hash_case(&tcs, s));
                }
                if !re.is_match(&tcs[0]) {
                    let mut case = case_json(&tcs, s);
                    case["output"] = json!(out);
                    st.violation("test_case_not_matched", format!("{:?} does not match U+{:04X}", out, c as u32), case);
                }
            }
        },
    }
}

pub fn replay(ctx: &Ctx, case: &serde_json::Value) {
    let (tcs, s) = case_from_json(case);
    let mut st = Stats::new();
    if let Some(v) = case.get("variant").and_then(|v| v.as_str()) {
        let mut with = tcs.clone();
        with.push(v.to_string());
        if let (Ok(a), Ok(b)) = (build(&tcs, s), build(&with, s)) {
            st.evaluations += 1;
            st.decided += 1;
            if a != b {
                st.violation("case_variant_does_not_collapse", format!("{a:?} vs {b:?}"), case.clone());
            }
        }
    } else {
        check_case(ctx, &mut st, &tcs, s);
    }
    ctx.run.merge(st);
}

pub const MODS: u32 = VERB | ESC | CAP | REP | NOSTART | NOEND;

pub fn run(ctx: &Ctx) -> i32 {
    let seed = ctx.seed();
    // exhaustive small sets over a cased alphabet
    let words = gen::words(&["a", "A", "b"], 2);
    let subs = gen::subsets(words.len(), if ctx.thorough { 4 } else { 3 });
    par_for(&ctx.run, subs.len(), |i, st| {
        st.count("exhaustive_aAb2_sets");
        check_case(ctx, st, &gen::pick_subset(&words, subs[i]), Settings::new(CI));
    });
    // special letters: every single one, every pair
    let special = gen::alphabet("case");
    let mut combos: Vec<Vec<String>> = vec![];
    for (i, a) in special.iter().enumerate() {
        combos.push(vec![a.clone()]);
        for b in &special[i + 1..] {
            combos.push(vec![a.clone(), b.clone()]);
            combos.push(vec![format!("{a}{b}"), format!("{b}{a}")]);
        }
    }
    par_for(&ctx.run, combos.len(), |i, st| {
        st.count("special_letter_sets");
        check_case(ctx, st, &combos[i], Settings::new(CI | if i % 5 == 0 { VERB } else { 0 }));
    });
    // test cases that lower-case to the same string but distribute the capitals differently, in both input
    // orders (a per-build cache keyed by the lower-cased text would show here)
    {
        let letters: Vec<String> = gen::alphabet("case").into_iter().filter(|s| s.chars().any(|c| c.is_lowercase() || c.is_uppercase())).collect();
        let mut sets: Vec<Vec<String>> = vec![];
        for (i, x) in letters.iter().enumerate() {
            for y in letters.iter().skip(i + 1).step_by(3) {
                let (xl, xu, yl, yu) = (x.to_lowercase(), x.to_uppercase(), y.to_lowercase(), y.to_uppercase());
                let a = format!("{xl}{yu}");
                let b = format!("{xu}{yl}");
                if a != b {
                    sets.push(vec![a.clone(), b.clone()]);
                    sets.push(vec![b, a]);
                }
            }
            let (xl, xu) = (x.to_lowercase(), x.to_uppercase());
            if xl != xu {
                sets.push(vec![xu.clone(), xl.clone(), x.clone()]);
                sets.push(vec![xl, x.clone(), xu]);
            }
        }
        par_for(&ctx.run, sets.len(), |i, st| {
            st.count("same_lowercase_different_casing_sets");
            check_case(ctx, st, &sets[i], Settings::new(CI));
        });
    }
    let n = if ctx.thorough { 200_000 } else { 12_000 };
    let names = ["case", "mixed", "ab", "graph", "classes", "sigma"];
    let alphabets: Vec<(String, Vec<String>)> = names.iter().map(|a| (a.to_string(), gen::alphabet(a))).collect();
    par_for(&ctx.run, n, |i, st| {
        let mut rng = Rng::new(seed, 0x40_0000 + i as u64);
        let (name, al) = if i % 2 == 0 { &alphabets[0] } else { &alphabets[i % alphabets.len()] };
        let tcs = gen::family(&mut rng, al);
        let s = if i % 3 == 0 { gen::settings(&mut rng, MODS) } else { Settings::new(0) };
        st.count(&format!("random_{name}"));
        check_case(ctx, st, &tcs, s);
        collapse_case(ctx, st, &mut rng, &tcs, s);
        if i % 4 == 0 {
            history_collapse(st, &tcs, s);
        }
    });
    // sweep: every scalar as a one-character test case
    let stride = if ctx.thorough { 1 } else { 29 };
    let offset = (seed % stride as u64) as u32;
    let scalars: Vec<char> = (0..=0x10FFFFu32).filter_map(char::from_u32).filter(|c| ctx.thorough || (*c as u32) % stride == offset || c.is_lowercase() || c.is_uppercase() || !c.to_lowercase().eq(std::iter::once(*c))).collect();
    par_for(&ctx.run, scalars.len(), |i, st| {
        sweep(st, scalars[i], 0);
        if ctx.thorough || i % 4 == 0 {
            sweep(st, scalars[i], VERB | ESC);
        }
    });
    ctx.run.finish(
        "cases = all small subsets of {a,A,b}^<=2, every single special letter and every pair (İ ẞ ß σ ς Σ K(Kelvin) ǅ ǆ Ǆ Ꭰ ꭰ ı ſ µ Ω(Ohm) U+1C89 U+1C8A ...), random families over cased and uncased alphabets x modifiers, collapse probes (a std-equal, engine-foldable re-casing of one test case is added), and a sweep with every cased scalar (all 1,112,064 scalars in the thorough tier) as a one-character test case; non-trivial = the test cases contain at least one cased letter; distinct by (set of test cases, settings)",
        "per execution: the AST's first item must be a flags item enabling i; DFA equivalence of the output with (?i)^(?:\\x{..} alternation of the ORIGINAL test cases)$; collapse probes compare the two outputs as strings; sweep: build([c]).is_match(c) with regex::Regex",
        &["'equal up to the engine's simple case folding' is what regex-syntax's (?i) denotes", "collapse is asserted only for variants whose std lower-casing equals that of the original and which the engine folds (see DESIGN.md C04 caveat)"],
        json!({"scalar_sweep_exhaustive": ctx.thorough}),
        false,
    )
}
