#!/bin/bash
# Runs the repository's pinned baseline (guard OFF) and prints the pass/fail totals.
cd /repo && CARGO_NET_OFFLINE=true cargo test --workspace --no-fail-fast --offline 2>&1 | grep -E "^test result|FAILED|failed|panicked" | awk '/^test result/ {p+=$4; f+=$6} {print} END {print "TOTAL passed=" p " failed=" f}'
