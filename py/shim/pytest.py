"""Minimal stand-in for pytest (not installed in this sandbox) to run /repo/tests/python."""
import contextlib


class _Param:
    def __init__(self, *values, **kw):
        self.values = values


def param(*values, **kw):
    return _Param(*values, **kw)


class _Mark:
    def parametrize(self, names, values):
        names = [n.strip() for n in names.split(",")] if isinstance(names, str) else list(names)

        def deco(fn):
            fn._params = (names, [v.values if isinstance(v, _Param) else (v if isinstance(v, tuple) else (v,)) for v in values])
            return fn
        return deco


mark = _Mark()


class _Raises:
    def __init__(self, exc):
        self.exc = exc
        self.value = None

    def __enter__(self):
        return self

    def __exit__(self, et, ev, tb):
        if et is None:
            raise AssertionError("DID NOT RAISE %r" % self.exc)
        if issubclass(et, self.exc):
            self.value = ev
            return True
        return False


def raises(exc, match=None):
    return _Raises(exc)
