#!/usr/bin/env python3
"""Runs /repo/tests/python/test_grex.py against the built extension module (pytest shim)."""
import importlib.util, sys, traceback
sys.path.insert(0, "/verif/py/shim")
sys.path.insert(0, "/verif/.build/pymod")
spec = importlib.util.spec_from_file_location("test_grex", "/repo/tests/python/test_grex.py")
mod = importlib.util.module_from_spec(spec)
spec.loader.exec_module(mod)
passed = failed = 0
for name in dir(mod):
    fn = getattr(mod, name)
    if name.startswith("test_") and callable(fn):
        names, rows = getattr(fn, "_params", ([], [()]))
        for row in rows:
            try:
                fn(**dict(zip(names, row)))
                passed += 1
            except Exception:
                failed += 1
                print("FAILED", name, row)
                traceback.print_exc()
print("python tests: passed=%d failed=%d" % (passed, failed))
sys.exit(1 if failed else 0)
