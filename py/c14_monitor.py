#!/usr/bin/env python3
"""C14 monitor, Python side: replays cases through the real extension module built from /repo.

usage: c14_monitor.py <module dir> <cases.jsonl> <results.jsonl>
Each case: {"idx", "test_cases", "flags": [names], "min_rep", "min_len", "rust_out", "order_seed"}
Each result: {"idx", "problems": [{"kind", "detail"}], "notes": [...], "py_out"}
"""
import json
import random
import re
import sys

sys.path.insert(0, sys.argv[1])
import grex  # noqa: E402

MISSING = "No test cases have been provided for regular expression generation"
MIN_REP = "Quantity of minimum repetitions must be greater than zero"
MIN_LEN = "Minimum substring length must be greater than zero"

HEX = "0123456789abcdef"


def specified_rewrite(rust_out):
    """The rewrite the binding is documented to perform, re-implemented independently: a scan in which an
    escaped backslash is a literal (so the `u{2}` of `\\\\u{2}` is a quantified letter, not an escape)."""
    out, i, n = [], 0, len(rust_out)
    while i < n:
        ch = rust_out[i]
        if ch != "\\" or i + 1 >= n:
            out.append(ch)
            i += 1
            continue
        nxt = rust_out[i + 1]
        if nxt == "u" and i + 2 < n and rust_out[i + 2] == "{":
            j = i + 3
            while j < n and rust_out[j] in HEX and j - (i + 3) < 6:
                j += 1
            if j > i + 3 and j < n and rust_out[j] == "}":
                v = int(rust_out[i + 3:j], 16)
                out.append("\\u%04x" % v if v <= 0xFFFF else "\\U%08x" % v)
                i = j + 1
                continue
        out.append(ch)
        out.append(nxt)
        i += 2
    return "".join(out)


SETTERS = {
    "digits": lambda b: b.with_conversion_of_digits(),
    "non_digits": lambda b: b.with_conversion_of_non_digits(),
    "spaces": lambda b: b.with_conversion_of_whitespace(),
    "non_spaces": lambda b: b.with_conversion_of_non_whitespace(),
    "words": lambda b: b.with_conversion_of_words(),
    "non_words": lambda b: b.with_conversion_of_non_words(),
    "repetitions": lambda b: b.with_conversion_of_repetitions(),
    "case_insensitive": lambda b: b.with_case_insensitive_matching(),
    "capture": lambda b: b.with_capturing_groups(),
    "verbose": lambda b: b.with_verbose_mode(),
    "no_start_anchor": lambda b: b.without_start_anchor(),
    "no_end_anchor": lambda b: b.without_end_anchor(),
}
CLASS_FLAGS = {"digits", "non_digits", "spaces", "non_spaces", "words", "non_words"}


def run_case(c):
    problems, notes = [], []
    tcs = c["test_cases"]
    flags = list(c["flags"])
    rng = random.Random(c.get("order_seed", 0))
    b = grex.RegExpBuilder(tcs) if c["idx"] % 2 == 0 else grex.RegExpBuilder.from_test_cases(tcs)
    calls = []
    for f in flags:
        if f in SETTERS:
            calls.append(SETTERS[f])
    if "escape" in flags:
        surr = "surrogates" in flags
        # the setter may be called several times; the last call decides (as in the Rust library)
        hist = c.get("escape_history") or [surr]

        def esc(b, hist=hist):
            for v in hist:
                b = b.with_escaping_of_non_ascii_chars(use_surrogate_pairs=v)
            return b
        calls.append(esc)
    if "no_start_anchor" in flags and "no_end_anchor" in flags and c["idx"] % 3 == 0:
        calls = [x for x in calls if x not in (SETTERS["no_start_anchor"], SETTERS["no_end_anchor"])]
        calls.append(lambda b: b.without_anchors())
    if c["min_rep"] != 1 or c["idx"] % 5 == 0:
        calls.append(lambda b: b.with_minimum_repetitions(c["min_rep"]))
    if c["min_len"] != 1 or c["idx"] % 7 == 0:
        calls.append(lambda b: b.with_minimum_substring_length(c["min_len"]))
    rng.shuffle(calls)
    if c.get("rejected_threshold_call"):
        # a rejected call (caught by the caller) must leave the builder as it was
        def rejected(b):
            for bad in (0, -1):
                for name in ("with_minimum_repetitions", "with_minimum_substring_length"):
                    try:
                        getattr(b, name)(bad)
                        problems.append({"kind": "wrong_exception", "detail": "%s(%d) did not raise" % (name, bad)})
                    except ValueError:
                        pass
            return b
        calls.append(rejected)
    for call in calls:
        r = call(b)
        if r is not b and not isinstance(r, grex.RegExpBuilder):
            problems.append({"kind": "setter_does_not_return_builder", "detail": repr(r)})
    try:
        out = b.build()
    except BaseException as e:  # pyo3 turns Rust panics into PanicException (a BaseException)
        problems.append({"kind": "build_raised", "detail": "%s: %s" % (type(e).__name__, e)})
        return {"idx": c["idx"], "problems": problems, "notes": notes, "py_out": None}
    expected = specified_rewrite(c["rust_out"]) if "escape" in flags else c["rust_out"]
    if out != expected:
        problems.append({"kind": "differs_from_specified_rewrite", "detail": "python %r, expected %r (rust %r)" % (out, expected, c["rust_out"])})
    out2 = b.build()
    if out2 != out:
        problems.append({"kind": "second_build_differs", "detail": "%r then %r" % (out, out2)})
    try:
        pat = re.compile(out)
    except (re.error, OverflowError, RecursionError) as e:
        if isinstance(e, re.error):
            problems.append({"kind": "re_compile_fails", "detail": "%s for %r" % (e, out)})
        else:
            notes.append("re.compile resource limit: %s" % type(e).__name__)
        return {"idx": c["idx"], "problems": problems, "notes": notes, "py_out": out}
    if not (CLASS_FLAGS & set(flags)):
        ci = "case_insensitive" in flags
        surr = "surrogates" in flags
        unmatched = []
        for t in tcs:
            if surr and any(ord(ch) > 0xFFFF for ch in t):
                notes.append("astral test case under surrogate output not asserted")
                continue
            try:
                ok = pat.fullmatch(t) is not None
            except RecursionError:
                notes.append("fullmatch recursion limit")
                continue
            if ok:
                continue
            if ci and not t.isascii():
                try:
                    same = re.fullmatch(re.escape(t.lower()), t, re.I) is not None and len(t.lower()) == len(t)
                except re.error:
                    same = False
                # Python's own case-insensitive comparison of the lower-cased test case with the
                # original must hold as well, otherwise its folding differs from the Rust engine's
                if not same or any(ch.lower() != ch and not re.fullmatch(re.escape(ch.lower()), ch, re.I) for ch in t):
                    notes.append("python case folding differs for %r" % t)
                    continue
                notes.append("non-ascii ci mismatch counted as inconclusive for %r" % t)
                continue
            unmatched.append(t)
        if unmatched:
            problems.append({"kind": "test_case_not_matched", "detail": "re.fullmatch(%r) fails for %r" % (out, unmatched), "unmatched": unmatched})
    return {"idx": c["idx"], "problems": problems, "notes": notes, "py_out": out}


def error_cases():
    """ValueError with the library's messages for [], thresholds 0 and -1."""
    res = []

    def expect(kind, fn, msg):
        try:
            fn()
            res.append({"kind": kind, "ok": False, "detail": "no exception"})
        except ValueError as e:
            res.append({"kind": kind, "ok": str(e) == msg, "detail": "ValueError(%r)" % str(e)})
        except BaseException as e:
            res.append({"kind": kind, "ok": False, "detail": "%s: %s" % (type(e).__name__, e)})

    expect("empty_list_ctor", lambda: grex.RegExpBuilder([]), MISSING)
    expect("empty_list_from_test_cases", lambda: grex.RegExpBuilder.from_test_cases([]), MISSING)
    for v in (0, -1, -2**31):
        expect("min_repetitions_%d" % v, lambda v=v: grex.RegExpBuilder(["a"]).with_minimum_repetitions(v), MIN_REP)
        expect("min_substring_length_%d" % v, lambda v=v: grex.RegExpBuilder(["a"]).with_minimum_substring_length(v), MIN_LEN)
    # positive thresholds must be accepted
    for v in (1, 2, 2**31 - 1):
        try:
            grex.RegExpBuilder(["aaa"]).with_minimum_repetitions(v).with_minimum_substring_length(v).with_conversion_of_repetitions().build()
            res.append({"kind": "positive_threshold_%d" % v, "ok": True, "detail": "accepted"})
        except BaseException as e:
            res.append({"kind": "positive_threshold_%d" % v, "ok": False, "detail": "%s: %s" % (type(e).__name__, e)})
    return res


def main():
    with open(sys.argv[2], encoding="utf-8") as f, open(sys.argv[3], "w", encoding="utf-8") as out:
        out.write(json.dumps({"errors": error_cases(), "python": sys.version.split()[0]}) + "\n")
        for line in f:
            c = json.loads(line)
            try:
                r = run_case(c)
            except BaseException as e:  # harness problem, reported as such
                r = {"idx": c["idx"], "problems": [], "notes": [], "harness_error": "%s: %s" % (type(e).__name__, e), "py_out": None}
            out.write(json.dumps(r) + "\n")


if __name__ == "__main__":
    main()
